"""Model of the pandas DataFrame operations HTA uses (DESIGN.md appendix A)."""
from __future__ import annotations

import ast
from typing import Any, Dict, List, Optional, Tuple

from . import terms as T
from .values import (ClassRef, Each, EnumRef, ExtMod, Frame, FuncRef, GroupBy, Obj, PyTuple, Ser, to_term)
from .pandas_ops2 import SeriesOps
from .progdb import AnalysisError

STABLE_KINDS = ("stable", "mergesort")


class RowIter:
    def __init__(self, frame: Frame, index: bool = True, pairs: bool = False):
        self.row_frame = frame
        self.index = index
        self.pairs = pairs          # iterrows(): (label, row) pairs


class Ops(SeriesOps):
    FRAME_METHODS = {
        "copy", "sort_values", "reset_index", "set_index", "rename", "drop", "dropna", "fillna", "drop_duplicates", "merge",
        "join", "groupby", "melt", "replace", "query", "apply", "astype", "round", "assign", "isin", "describe", "to_numpy",
        "to_dict", "itertuples", "iterrows", "items", "head", "tail", "sample", "sum", "min", "max", "insert", "to_csv",
        "sort_index", "get", "pipe", "equals", "nunique", "count", "mean", "any", "all", "isna", "isnull", "notna", "info",
        "applymap", "map", "explode", "pivot_table", "to_json", "set_axis", "squeeze", "transpose", "add_prefix", "add_suffix",
        "nlargest", "nsmallest", "cumsum", "abs", "shift", "duplicated", "agg", "aggregate", "update", "append", "to_records", "to_string", "clip", "where", "eval", "filter",
    }
    GB_METHODS = {"agg", "aggregate", "sum", "max", "min", "mean", "count", "size", "first", "last", "describe", "groups", "cumsum",
                  "shift", "apply", "transform", "std", "median", "nunique", "head", "tail", "cummax", "idxmax", "idxmin", "ngroup", "cumcount"}

    def __init__(self, model):
        self.M = model
        self.I = model.I

    # ------------------------------------------------------------------ basics
    def log(self, kind_, node=None, **kw):
        self.I.log(kind_, node, **kw)

    def index_term(self, f: Optional[Frame]) -> T.Term:
        if f is None:
            return T.opaque("index of unknown frame")
        if f.index is None:
            return ("index", f.base)
        return f.index

    def newframe(self, f: Frame, node, op: str, **kw) -> Frame:
        g = f.derive(**kw)
        self.log("frame-op", node, op=op, src=f.obj, dst=g.obj, base=f.base, ctx=g.ctx())
        return g

    def filter(self, f: Frame, mask: Any, node, how: str = "mask") -> Frame:
        mt = mask.term if isinstance(mask, Ser) else to_term(mask)
        if isinstance(mask, Ser) and mask.ctx[0] != f.base and not T.has_opaque(mt):
            self.log("foreign-mask", node, mask_ctx=mask.ctx, frame_ctx=f.ctx())
            mt = ("foreignmask", mt, mask.ctx)
        elif isinstance(mask, Ser) and getattr(mask, "positional", False) and mask.ctx != f.ctx() and not T.has_opaque(mt):
            # a numpy / positional mask is applied by POSITION: computed over another row selection or another row order it selects other rows
            self.log("positional-mask-misaligned", node, mask_ctx=mask.ctx, frame_ctx=f.ctx())
            mt = ("positionalmask", mt, mask.ctx)
        g = f.derive(rows=T.and_(f.rows, mt))
        self.log("filter", node, src=f.obj, dst=g.obj, base=f.base, pred=mt, how=how)
        return g

    def _is_mask(self, key: Any) -> bool:
        if isinstance(key, Ser):
            return self.M._boolish(key.term) or key.term[0] in ("ite", "foreignmask", "positionalmask")
        return isinstance(key, tuple) and self.M._boolish(key)

    def project(self, f: Frame, names: List[str], node) -> Frame:
        g = f.derive(known=list(names))
        g.dropped = set()
        # keep definitions of the projected columns only
        g.cols = {n: f.col(n) for n in names}
        self.log("project", node, src=f.obj, dst=g.obj, cols=list(names))
        return g

    def frame_getitem(self, f: Frame, key: Any, node) -> Any:
        key = self._callable_key(f, key, node)
        if isinstance(key, str):
            return self.M.ser_of(f, key)
        if isinstance(key, list) and all(isinstance(k, str) for k in key):
            return self.project(f, key, node)
        if self._is_mask(key) or isinstance(key, Ser):
            return self.filter(f, key, node)      # df[<Series>] is always boolean indexing
        if isinstance(key, tuple) and key and key[0] == "slice":
            self.log("row-subset", node, what="slice", base=f.base)
            return f.derive(rows=T.and_(f.rows, ("rowslice", key[1])))
        if isinstance(key, PyTuple) and all(isinstance(k, str) for k in key.items):
            return Ser(f.col(tuple(key.items)) if tuple(key.items) in f.cols else T.opaque("multiindex column"), f.ctx(), f, None)
        self.log("unmodelled", node, what=f"frame[{to_term(key)}]")
        return Ser(T.opaque(f"frame subscript {T.show(to_term(key))}"), f.ctx(), f)

    def row_obj(self, f: Frame, sel: T.Term) -> Obj:
        return Obj("row", attrs={"__row_of__": sel, "__frame__": f.derive()})

    def _callable_key(self, f: Any, key: Any, node) -> Any:
        """df.loc[callable] / df[callable] / s.loc[callable]: pandas calls it with the object being indexed and uses what it returns"""
        call = lambda k: self.M.invoke(k, [f], {}, node, "indexer-callable")
        if isinstance(key, FuncRef) or (isinstance(key, Obj) and key.cls is not None and self.I.find_method(key.cls, "__call__") is not None):
            return call(key)
        if isinstance(key, PyTuple) and key.items and (isinstance(key.items[0], FuncRef) or (isinstance(key.items[0], Obj) and key.items[0].cls is not None and self.I.find_method(key.items[0].cls, "__call__") is not None)):
            return PyTuple([call(key.items[0])] + list(key.items[1:]))
        return key

    def indexer_get(self, kind: str, f: Any, key: Any, node) -> Any:
        if kind in ("loc", "iloc"):
            key = self._callable_key(f, key, node)
        if isinstance(f, Ser):
            if kind == "iloc":
                if isinstance(key, int):
                    return ("at", ("iloc", f.ctx, key), f.term)
                if isinstance(key, tuple) and key and key[0] == "slice":
                    if key[1] == (None, None, -1):
                        return Ser(f.term, (f.ctx[0], f.ctx[1], ("reversed", f.ctx[2])), f.frame, f.name)
                    return Ser(f.term, (f.ctx[0], T.and_(f.ctx[1], ("rowslice", key[1])), f.ctx[2]), f.frame, f.name)
            kt = key.term if isinstance(key, Ser) else to_term(key)
            if isinstance(key, Ser) and not self._is_mask(key):
                return Ser(("gather", f.term, kt, key.ctx), key.ctx, key.frame)
            if self._is_mask(key):
                return Ser(f.term, (f.ctx[0], T.and_(f.ctx[1], kt), f.ctx[2]), f.frame, f.name)
            return ("at", ("loc", f.ctx, kt), f.term)
        rowsel, colsel = key, None
        if isinstance(key, PyTuple) and len(key.items) == 2:
            rowsel, colsel = key.items
        g = f
        if kind == "iloc":
            if isinstance(rowsel, int):
                self.log("iloc-row", node, base=f.base, pos=rowsel)          # a positional row read: raises IndexError on an empty frame
                r = self.row_obj(f, ("iloc", f.ctx(), rowsel))
                if colsel is None:
                    return r
                return self.M.getitem(r, colsel, node)
            self.log("row-subset", node, what="iloc", base=f.base)
            g = f.derive(rows=T.and_(f.rows, ("ilocsel", to_term(rowsel))))
        elif isinstance(rowsel, tuple) and rowsel and rowsel[0] == "slice" and rowsel[1] == (None, None, None):
            g = f
        elif self._is_mask(rowsel):
            g = self.filter(f, rowsel, node, how="loc")
        elif isinstance(rowsel, Ser) or (isinstance(rowsel, tuple) and rowsel and rowsel[0] in ("call", "unique", "list", "tolist", "set", "indexunion")) or isinstance(rowsel, list):
            kt = rowsel.term if isinstance(rowsel, Ser) else to_term(rowsel)
            kc = rowsel.ctx if isinstance(rowsel, Ser) else None
            g = f.derive(rows=T.and_(f.rows, ("index_in", self.index_term(f), kt, kc)))
            self.log("take", node, src=f.obj, dst=g.obj, base=f.base, labels=kt, labels_ctx=kc)
        else:
            r = self.row_obj(f, ("loc", f.ctx(), to_term(rowsel)))
            if colsel is None:
                return r
            return self.M.getitem(r, colsel, node)
        if colsel is None:
            return g
        if isinstance(colsel, str):
            return self.M.ser_of(g, colsel)
        if isinstance(colsel, list):
            return self.project(g, colsel, node)
        return T.opaque("loc column selector")

    # ------------------------------------------------------------------ stores
    def _value_term(self, f: Frame, v: Any, node, what: str) -> T.Term:
        if isinstance(v, Ser):
            t = v.term
            if v.positional and v.ctx != f.ctx():
                t = ("positional", t, v.ctx)
            elif v.ctx != f.ctx() and v.ctx[0] != f.base:
                self.log("align", node, what=what, src=v.ctx, dst=f.ctx())
                t = ("aligned", t, v.ctx)
            return t
        if isinstance(v, Frame):
            return T.opaque("frame assigned to column")
        # law: df[c] = [f(v) for v in df[a]]  ==  df[a].apply(f)  (a list is stored positionally; it was built from the rows of the same frame in row order)
        if isinstance(v, tuple) and len(v) == 5 and v[0] == "comp" and v[1] == "list" and v[4] == T.TRUE and isinstance(v[3], tuple) and len(v[3]) == 3 and v[3][0] == "seriter" and v[3][2] == f.ctx():
            return _strip_row(v[2])
        # ... and df[c] = [g(x, y) for x, y in zip(df[a].tolist(), df[b].tolist())]: the zip of tolists over the frame's own rows walks them in order
        if isinstance(v, tuple) and len(v) == 5 and v[0] == "comp" and v[1] == "list" and v[4] == T.TRUE and isinstance(v[3], tuple) and len(v[3]) == 2 and v[3][0] == "zip" \
                and v[3][1] and all(isinstance(x, tuple) and len(x) == 3 and x[0] == "tolist" and x[2] == f.ctx() for x in v[3][1]):
            return _strip_row(v[2])
        return to_term(v)

    def set_column(self, f: Frame, name: Any, v: Any, node) -> None:
        t = self._value_term(f, v, node, f"column {name}")
        self.M.mutating(f, node, "setcol", column=name, term=t)
        if isinstance(name, str):
            f.setcol(name, t)

    def frame_setitem(self, f: Frame, key: Any, v: Any, node) -> None:
        if isinstance(key, str):
            self.set_column(f, key, v, node)
        elif isinstance(key, list) and all(isinstance(k, str) for k in key) and isinstance(v, Frame) and v.colnames() is not None and len(v.colnames()) == len(key) \
                and v.base == f.base and v.rows == f.rows:
            # pandas pairs the key list with the value frame's columns POSITIONALLY (DataFrame._setitem_array)
            for k, src in zip(key, v.colnames()):
                t = v.col(src)
                self.M.mutating(f, node, "setcol", column=k, term=t)
                f.setcol(k, t)
        elif isinstance(key, list) and all(isinstance(k, str) for k in key) and not isinstance(v, (Frame, Ser)) and not isinstance(v, (list, tuple, PyTuple)):
            for k in key:                      # scalar broadcast
                self.set_column(f, k, v, node)
        elif isinstance(key, list) and all(isinstance(k, str) for k in key):
            for k in key:
                self.M.mutating(f, node, "setcol", column=k, term=T.opaque("multi-column store"))
                f.setcol(k, T.opaque("multi-column store"))
        else:
            self.M.mutating(f, node, "masked-store", key=to_term(key))

    def indexer_set(self, kind: str, f: Any, key: Any, v: Any, node) -> None:
        if not isinstance(f, Frame):
            self.log("series-store", node, key=to_term(key))
            return
        rowsel, colsel = key, None
        if isinstance(key, PyTuple) and len(key.items) == 2:
            rowsel, colsel = key.items
        if isinstance(colsel, list) and colsel and all(isinstance(c, str) for c in colsel) and not isinstance(v, (Frame,)) and (len(colsel) == 1 or not isinstance(v, Ser)):
            for c in colsel:
                self.indexer_set(kind, f, PyTuple([rowsel, c]), v, node)
            return
        if not isinstance(colsel, str):
            self.M.mutating(f, node, "loc-store", key=to_term(key))
            return
        vt = self._value_term(f, v, node, f"loc store {colsel}")
        old = f.col(colsel) if f.has(colsel) is not False else ("missing",)
        if isinstance(rowsel, tuple) and rowsel and rowsel[0] == "slice":
            new = vt
            how = "all"
        elif self._is_mask(rowsel):
            mt = rowsel.term if isinstance(rowsel, Ser) else rowsel
            new = T.ite(mt, vt, old)
            how = "mask"
        else:
            kt = rowsel.term if isinstance(rowsel, Ser) else to_term(rowsel)
            if isinstance(rowsel, Ser) and rowsel.ctx != f.ctx():
                kt = ("labels", kt, rowsel.ctx)
            new = ("scatter", kt, vt, old)
            how = "labels"
        self.M.mutating(f, node, "loc-store", column=colsel, how=how, term=new, value=vt, rowsel=to_term(rowsel) if not isinstance(rowsel, Ser) else rowsel.term,
                        rowsel_ctx=rowsel.ctx if isinstance(rowsel, Ser) else None)
        f.setcol(colsel, new)

    # ------------------------------------------------------------------ method dispatch
    def method(self, obj: Any, name: str, pos: List[Any], kw: Dict[str, Any], node) -> Any:
        if isinstance(obj, Frame):
            m = getattr(self, "f_" + name, None)
            if m is None:
                self.log("unmodelled", node, what=f"DataFrame.{name}")
                return T.opaque(f"DataFrame.{name}")
            return m(obj, pos, kw, node)
        if isinstance(obj, Ser):
            return self.series_method(obj, name, pos, kw, node)
        if isinstance(obj, GroupBy):
            return self.groupby_method(obj, name, pos, kw, node)
        if isinstance(obj, tuple) and obj and obj[0] == "straccessor":
            return self.str_method(obj[1], name, pos, kw, node)
        return self.python_method(obj, name, pos, kw, node)

    def _inplace(self, f: Frame, g: Frame, kw, node, what: str) -> Any:
        if kw.get("inplace") is True:
            self.M.mutating(f, node, what + " inplace")
            keep = f.obj
            f.__dict__.update(g.__dict__)
            f.obj = keep
            return None
        return g

    # -- copies / ordering / index
    def f_copy(self, f, pos, kw, node):
        return self.newframe(f, node, "copy")

    def f_sort_values(self, f, pos, kw, node):
        by = kw.get("by", pos[0] if pos else None)
        by_l = by if isinstance(by, list) else [by]
        asc = kw.get("ascending", True)
        kind = kw.get("kind", "quicksort")
        terms = tuple(f.col(b) if isinstance(b, str) else to_term(b) for b in by_l)
        prev = f.order if kind in STABLE_KINDS else None
        asc_n = tuple(asc) if isinstance(asc, list) else asc
        # law: a stable sort by K over a stable sort by J (disjoint keys) is the stable sort by (K, J)
        if isinstance(prev, tuple) and prev and prev[0] == "sort" and prev[3] in STABLE_KINDS and not (set(terms) & set(prev[1])):
            a1 = list(asc_n) if isinstance(asc_n, tuple) else [asc_n] * len(terms)
            a2 = list(prev[2]) if isinstance(prev[2], tuple) else [prev[2]] * len(prev[1])
            both = a1 + a2
            terms_m = terms + tuple(prev[1])
            order = ("sort", terms_m, both[0] if all(x == both[0] for x in both) and not isinstance(asc_n, tuple) and not isinstance(prev[2], tuple) else tuple(both), "stable", prev[4])
        else:
            order = ("sort", terms, asc_n, kind, prev)
        g = f.derive(order=order)
        if kw.get("ignore_index") is True:
            g.index = ("range", g.ctx())
        self.log("sort", node, src=f.obj, dst=g.obj, base=f.base, by=[b if isinstance(b, str) else T.show(to_term(b)) for b in by_l],
                 by_terms=terms, ascending=asc, sort_kind=kind, ctx_before=f.ctx(), prev_order=f.order)
        return self._inplace(f, g, kw, node, "sort_values")

    def f_sort_index(self, f, pos, kw, node):
        g = f.derive(order=("sortindex", self.index_term(f), kw.get("ascending", True)))
        self.log("sort", node, src=f.obj, dst=g.obj, base=f.base, by=["<index>"], by_terms=(self.index_term(f),), ascending=kw.get("ascending", True), sort_kind="index", ctx_before=f.ctx(), prev_order=f.order)
        return self._inplace(f, g, kw, node, "sort_index")

    def f_reset_index(self, f, pos, kw, node):
        g = f.derive()
        drop = kw.get("drop", False)
        if not drop:
            names = kw.get("names")
            keys = getattr(f, "index_keys", None)
            if keys:
                for n, t in keys:
                    g.setcol(n, t)
                    if g.known is not None and n in g.known:
                        g.known.remove(n)
                        g.known.insert(0, n)
            else:
                n = names if isinstance(names, str) else (f.index_name or "index")
                g.setcol(n, self.index_term(f))
        g.index = ("range", f.ctx())
        g.index_name = None
        g.index_keys = None
        self.log("reset_index", node, src=f.obj, dst=g.obj, base=f.base, drop=drop, ctx=f.ctx())
        return self._inplace(f, g, kw, node, "reset_index")

    def f_set_index(self, f, pos, kw, node):
        key = kw.get("keys", pos[0] if pos else None)
        g = f.derive()
        if isinstance(key, str):
            g.index = f.col(key)
            g.index_name = key
            if kw.get("drop", True) is not False:
                g.dropped = set(g.dropped) | {key}
                g.cols.pop(key, None)
        else:
            g.index = T.opaque("set_index multi")
        g.index_keys = None
        self.log("set_index", node, src=f.obj, dst=g.obj, key=key, drop=kw.get("drop", True), base=f.base)
        return self._inplace(f, g, kw, node, "set_index")

    def f_rename(self, f, pos, kw, node):
        mapping = kw.get("columns")
        if mapping is None and kw.get("axis") in (1, "columns"):
            mapping = kw.get("mapper", pos[0] if pos else None)
        g = f.derive()
        if isinstance(mapping, dict):
            lab = lambda x: isinstance(x, (str, int)) and not isinstance(x, bool)          # column labels: strings, or integers (0 of an unnamed series, +-markers)
            if any(not lab(o) or not lab(n) for o, n in mapping.items()):
                raise AnalysisError(f"rename(columns=...): label kinds not modelled: {mapping!r}"[:160])
            vals = {}
            for old, new in mapping.items():
                if f.has(old) is not False:
                    vals[new] = f.col(old)
            for old, new in mapping.items():
                if f.has(old) is not False:
                    g.cols.pop(old, None)
                    g.dropped.add(old)
                    if g.known is not None and old in g.known:
                        g.known[g.known.index(old)] = new
            for new, t in vals.items():
                g.setcol(new, t)
            self.log("rename", node, src=f.obj, dst=g.obj, mapping={str(k): str(v) for k, v in mapping.items()})
        else:
            self.log("rename-index", node, src=f.obj, dst=g.obj, mapper=to_term(kw.get("mapper", kw.get("index", pos[0] if pos else None))))
            g.index = ("mapped", self.index_term(f), to_term(kw.get("mapper", kw.get("index", pos[0] if pos else None))))
        return self._inplace(f, g, kw, node, "rename")

    def f_drop(self, f, pos, kw, node):
        g = f.derive()
        cols = kw.get("columns")
        labels = kw.get("labels", pos[0] if pos else None)
        axis = kw.get("axis", pos[1] if len(pos) > 1 else 0)
        if cols is None and axis in (1, "columns"):
            cols = labels
        if cols is not None:
            cl = cols if isinstance(cols, list) else [cols]
            for c in cl:
                if isinstance(c, str):
                    g.dropped.add(c)
                    g.cols.pop(c, None)
            self.log("drop-columns", node, src=f.obj, dst=g.obj, cols=[str(c) for c in cl])
        else:
            lt = labels.term if isinstance(labels, Ser) else to_term(labels)
            lc = labels.ctx if isinstance(labels, Ser) else None
            g.rows = T.and_(f.rows, T.not_(("index_in", self.index_term(f), lt, lc)))
            self.log("drop-rows", node, src=f.obj, dst=g.obj, base=f.base, labels=lt, labels_ctx=lc)
        return self._inplace(f, g, kw, node, "drop")

    def f_dropna(self, f, pos, kw, node):
        subset = kw.get("subset")
        axis = kw.get("axis", 0)
        how = kw.get("how", "any")
        g = f.derive()
        if isinstance(subset, list) and all(isinstance(s, str) for s in subset):
            preds = [("notnull", f.col(s)) for s in subset]
            g.rows = T.and_(f.rows, T.and_(*preds) if how == "any" else T.or_(*preds))
            for s in subset:
                if s in g.cols or True:
                    pass
        else:
            g.rows = T.and_(f.rows, ("notnull_all", f.base))
        self.log("dropna", node, src=f.obj, dst=g.obj, base=f.base, subset=subset, axis=axis, how=how)
        return self._inplace(f, g, kw, node, "dropna")

    def f_fillna(self, f, pos, kw, node):
        val = kw.get("value", pos[0] if pos else None)
        g = f.derive()
        if isinstance(val, dict):
            for c, v in val.items():
                if isinstance(c, str):
                    g.setcol(c, ("fillna", f.col(c), to_term(v)))
        else:
            vt = to_term(val)
            prev = g.resolver
            snap = f.derive()
            g.cols = {c: ("fillna", t, vt) for c, t in f.cols.items()}
            g.resolver = lambda name, snap=snap, vt=vt: ("fillna", snap.col(name), vt)
        self.log("fillna", node, src=f.obj, dst=g.obj, value=to_term(val))
        return self._inplace(f, g, kw, node, "fillna")

    def _wrap_all(self, f: Frame, fn, node, what: str) -> Frame:
        snap = f.derive()
        g = f.derive()
        g.cols = {c: fn(t) for c, t in f.cols.items()}
        g.resolver = lambda name, snap=snap: fn(snap.col(name))
        self.log("frame-op", node, op=what, src=f.obj, dst=g.obj, base=f.base, ctx=g.ctx())
        return g

    def f_add_suffix(self, f, pos, kw, node):
        return self._affix(f, pos, kw, node, suffix=True)

    def f_add_prefix(self, f, pos, kw, node):
        return self._affix(f, pos, kw, node, suffix=False)

    def _affix(self, f, pos, kw, node, suffix: bool):
        a = pos[0] if pos else kw.get("suffix" if suffix else "prefix")
        cn = f.colnames()
        if not isinstance(a, str) or cn is None:
            return Frame(("opaque-affix", self.I.new_id()))
        g = f.derive(known=[])
        g.cols, g.dropped = {}, set()
        snap = f.derive()
        for c in cn:
            g.setcol(c + a if suffix else a + c, snap.col(c))
        g.resolver = None
        self.log("rename", node, src=f.obj, dst=g.obj, mapping={c: (c + a if suffix else a + c) for c in cn})
        return g

    def f_astype(self, f, pos, kw, node):
        ty = to_term(pos[0] if pos else kw.get("dtype"))
        return self._wrap_all(f, lambda t: ("astype", ty, t), node, "astype")

    def f_round(self, f, pos, kw, node):
        d = pos[0] if pos else kw.get("decimals", 0)
        if isinstance(d, dict):
            g = self.newframe(f, node, "round")
            for c, n in d.items():
                if isinstance(c, str):
                    g.setcol(c, ("round", f.col(c), to_term(n)))
            return g
        nd = to_term(d)
        return self._wrap_all(f, lambda t: ("round", t, nd), node, "round")

    def f_shift(self, f, pos, kw, node):
        k = pos[0] if pos else kw.get("periods", 1)
        ctx = f.ctx()
        return self._wrap_all(f, lambda t: T.win("shift", (k,), t, ctx), node, "shift")

    def f_replace(self, f, pos, kw, node):
        mp = to_term(pos[0] if pos else kw.get("to_replace"))
        return self._wrap_all(f, lambda t: ("replace", mp, t), node, "replace")

    def f_drop_duplicates(self, f, pos, kw, node):
        subset = kw.get("subset", pos[0] if pos else None)
        g = Frame(("dedup", f.ctx(), to_term(subset), to_term(kw.get("keep", "first"))), known=f.known, resolver=None)
        snap = f.derive()
        g.resolver = lambda name: ("dd", g.base, snap.col(name))
        self.log("drop_duplicates", node, src=f.obj, dst=g.obj, base=f.base, subset=to_term(subset))
        return self._inplace(f, g, kw, node, "drop_duplicates")

    def f_duplicated(self, f, pos, kw, node):
        subset = kw.get("subset", pos[0] if pos else None)
        sl = subset if isinstance(subset, list) else ([subset] if isinstance(subset, str) else (f.colnames() or []))
        t = ("duplicated", kw.get("keep", "first"), tuple(f.col(c) for c in sl) if sl else ("allcols",), f.ctx())
        return Ser(t, f.ctx(), f)

    def f_head(self, f, pos, kw, node):
        self.log("row-subset", node, what="head", base=f.base)
        return f.derive(rows=T.and_(f.rows, ("head", to_term(pos[0] if pos else 5))))

    def f_tail(self, f, pos, kw, node):
        self.log("row-subset", node, what="tail", base=f.base)
        return f.derive(rows=T.and_(f.rows, ("tail", to_term(pos[0] if pos else 5))))

    def f_sample(self, f, pos, kw, node):
        self.log("row-subset", node, what="sample", base=f.base)
        return f.derive(rows=T.and_(f.rows, ("sample",)))

    def f_nlargest(self, f, pos, kw, node):
        self.log("row-subset", node, what="nlargest", base=f.base)
        return f.derive(rows=T.and_(f.rows, ("nlargest", to_term(pos[0] if pos else None), to_term(pos[1] if len(pos) > 1 else kw.get("columns")))))

    f_nsmallest = f_nlargest

    def f_assign(self, f, pos, kw, node):
        g = self.newframe(f, node, "assign")
        for k, v in kw.items():
            if isinstance(v, FuncRef):
                v = self.M.invoke(v, [g], {}, node, "assign-callable")          # assign(col=callable): called with the frame as it is so far (earlier keywords included)
            g.setcol(k, self._value_term(g, v, node, f"assign {k}"))
            self.log("assign-col", node, dst=g.obj, column=k, term=g.cols[k])
        return g

    def f_insert(self, f, pos, kw, node):
        name = pos[1] if len(pos) > 1 else kw.get("column")
        v = pos[2] if len(pos) > 2 else kw.get("value")
        self.set_column(f, name, v, node)
        return None

    def f_filter(self, f, pos, kw, node):
        """DataFrame.filter(items=[...]) keeps the listed columns that exist, in the listed order (like / regex forms are not modelled)"""
        items = kw.get("items", pos[0] if pos else None)
        if isinstance(items, list) and all(isinstance(c, str) for c in items) and kw.get("axis") in (None, 1, "columns") and not (set(kw) - {"items", "axis"}):
            present = [c for c in items if f.has(c) is not False]
            if all(f.has(c) is True for c in present):
                return self.project(f, present, node)
        raise AnalysisError("DataFrame.filter(...): only items=[known columns] is modelled")

    def f_get(self, f, pos, kw, node):
        if pos and isinstance(pos[0], str):
            return self.M.ser_of(f, pos[0])
        return T.opaque("DataFrame.get")

    def f_isin(self, f, pos, kw, node):
        return T.opaque("DataFrame.isin")

    def f_to_csv(self, f, pos, kw, node):
        self.log("io", node, what="to_csv", frame=f.ctx(), args=[to_term(p) for p in pos], kw={k: to_term(v) for k, v in kw.items()})
        return None

    f_to_json = f_to_csv
    f_info = f_to_csv

    def f_to_numpy(self, f, pos, kw, node):
        return ("to_numpy", f.ctx(), tuple((c, f.col(c)) for c in (f.colnames() or [])))

    def f_to_dict(self, f, pos, kw, node):
        return ("to_dict", f.ctx(), to_term(pos[0] if pos else kw.get("orient", "dict")))

    f_to_records = f_to_dict

    def f_itertuples(self, f, pos, kw, node):
        return RowIter(f.derive(), kw.get("index", True))

    def f_iterrows(self, f, pos, kw, node):
        return RowIter(f.derive(), pairs=True)

    def f_describe(self, f, pos, kw, node):
        return Frame(("describe", f.ctx()))

    def f_equals(self, f, pos, kw, node):
        return ("equals", f.ctx(), to_term(pos[0]) if pos else None)

    def _frame_reduce(self, fn):
        def m(self, f, pos, kw, node):
            return Ser(("frameagg", fn, f.ctx()), ("frameagg", fn, f.ctx()), None)
        return m

    def _rowwise(self, f, fn, pos, kw):
        """frame.max/min/sum(axis=1) over a frame whose columns are known: the fold of the column terms, one value per row"""
        axis = kw.get("axis", pos[0] if pos else 0)
        cn = f.colnames()
        if axis in (1, "columns") and cn and len(cn) <= 8:
            ts = [f.col(c) for c in cn]
            acc = ts[0]
            for t in ts[1:]:
                acc = T.max2(acc, t) if fn == "max" else T.min2(acc, t) if fn == "min" else T.add(acc, t)
            return Ser(acc, f.ctx(), f)
        if axis in (1, "columns"):
            return Ser(("rowagg", fn, f.ctx()), f.ctx(), f)
        return None

    def f_sum(self, f, pos, kw, node):
        return self._rowwise(f, "sum", pos, kw) or Ser(("frameagg", "sum", f.ctx()), ("frameagg", "sum", f.ctx()), None)

    def f_min(self, f, pos, kw, node):
        return self._rowwise(f, "min", pos, kw) or Ser(("frameagg", "min", f.ctx()), ("frameagg", "min", f.ctx()), None)

    def f_max(self, f, pos, kw, node):
        return self._rowwise(f, "max", pos, kw) or Ser(("frameagg", "max", f.ctx()), ("frameagg", "max", f.ctx()), None)

    def f_count(self, f, pos, kw, node):
        return Ser(("frameagg", "count", f.ctx()), ("frameagg", "count", f.ctx()), None)

    def f_mean(self, f, pos, kw, node):
        return Ser(("frameagg", "mean", f.ctx()), ("frameagg", "mean", f.ctx()), None)

    def f_nunique(self, f, pos, kw, node):
        return Ser(("frameagg", "nunique", f.ctx()), ("frameagg", "nunique", f.ctx()), None)

    def f_any(self, f, pos, kw, node):
        return ("frameagg", "any", f.ctx())

    f_all = f_any

    def f_groupby(self, f, pos, kw, node):
        by = kw.get("by", pos[0] if pos else None)
        keys = by if isinstance(by, list) else [by]
        if not all(isinstance(k, str) for k in keys):
            self.log("unmodelled", node, what="groupby non-column keys")
            return GroupBy(f.derive(), tuple(str(to_term(k)) for k in keys), kw.get("as_index", True))
        return GroupBy(f.derive(), tuple(keys), kw.get("as_index", True), None, kw.get("sort", True))

    # -- joins
    def f_merge(self, f, pos, kw, node):
        right = pos[0] if pos else kw.get("right")
        return self.do_merge(f, right, kw, node)

    def _ser_as_frame(self, s: Ser, node) -> Frame:
        """a named series used where a frame is expected: the one-column frame of ITS values (which may differ from the like-named column it was computed from)"""
        g = self.project(s.frame, [s.name], node)
        if isinstance(s.name, str) and g.col(s.name) != s.term:
            g.setcol(s.name, s.term)
        return g

    def do_merge(self, L, R, kw, node):
        if isinstance(R, Ser) and R.frame is not None and R.name:
            R = self._ser_as_frame(R, node)
        if not isinstance(L, Frame) or not isinstance(R, Frame):
            return Frame(("opaque-merge", self.I.new_id()))
        how = kw.get("how", "inner")
        on = kw.get("on")
        lo, ro = kw.get("left_on"), kw.get("right_on")
        if on is not None:
            lo = ro = on
        lk = lo if isinstance(lo, list) else [lo]
        rk = ro if isinstance(ro, list) else [ro]
        if kw.get("left_index"):
            lk = ["__index__"]
        if kw.get("right_index"):
            rk = ["__index__"]
        suffixes = kw.get("suffixes", PyTuple(["_x", "_y"]))
        sfx = tuple(suffixes.items) if isinstance(suffixes, PyTuple) else tuple(suffixes) if isinstance(suffixes, list) else ("_x", "_y")
        return self.join_frame(L, R, how, lk, rk, sfx, node, keep_left_index=False, validate=kw.get("validate"))

    def f_join(self, f, pos, kw, node):
        other = pos[0] if pos else kw.get("other")
        if isinstance(other, Ser) and other.frame is not None and other.name:
            other = self._ser_as_frame(other, node)
        on = kw.get("on")
        lk = [on] if isinstance(on, str) else (on if isinstance(on, list) else ["__index__"])
        sfx = (kw.get("lsuffix", ""), kw.get("rsuffix", ""))
        return self.join_frame(f, other, kw.get("how", "left"), lk, ["__index__"], sfx, node, keep_left_index=True)

    def _keyterm(self, f: Frame, k: Any) -> T.Term:
        if k == "__index__":
            return self.index_term(f)
        if isinstance(k, str) and f.index_name == k and f.has(k) is not True:
            return self.index_term(f)
        if isinstance(k, str):
            return f.col(k)
        return to_term(k)

    def join_frame(self, L: Frame, R: Frame, how: str, lk: list, rk: list, sfx: tuple, node, keep_left_index: bool, validate=None) -> Frame:
        if not isinstance(R, Frame):
            return Frame(("opaque-merge", self.I.new_id()))
        Ls, Rs = L.derive(), R.derive()
        lkt = tuple(self._keyterm(Ls, k) for k in lk)
        rkt = tuple(self._keyterm(Rs, k) for k in rk)
        base = ("join", how, Ls.ctx(), Rs.ctx(), lkt, rkt, sfx)
        same = [a for a, b in zip(lk, rk) if a == b and a != "__index__"]
        sx, sy = sfx
        lnull = how in ("right", "outer")
        rnull = how in ("left", "outer")

        def left(t):
            t = ("jl", base, t)
            return ("nullable", t) if lnull else t

        def right(t):
            t = ("jr", base, t)
            return ("nullable", t) if rnull else t

        def overlap(stem):
            return Ls.has(stem) is not False and Rs.has(stem) is not False and stem not in same and not (Ls.has(stem) is None and Rs.has(stem) is None and False)

        def resolver(name):
            if not isinstance(name, str):
                return None
            if name in same:
                return ("jkey", base, Ls.col(name))
            if sx and name.endswith(sx) and overlap(name[: -len(sx)]) and Ls.has(name) is not True:
                return left(Ls.col(name[: -len(sx)]))
            if sy and name.endswith(sy) and overlap(name[: -len(sy)]) and Rs.has(name) is not True:
                return right(Rs.col(name[: -len(sy)]))
            inl, inr = Ls.has(name), Rs.has(name)
            if inl is False and inr is False:
                return T.opaque(f"column {name!r} on neither side of the join")
            if inl is not False and inr is not False and not (inl is None and inr is None):
                # the name may exist on both sides: pandas keeps the bare name only for an empty suffix
                if inl is True and inr is True or (inl is None) or (inr is None):
                    if inr is None and inl is True and (sx != "" or sy == ""):
                        return left(Ls.col(name)) if sx == "" or True else None
                    if sx == "" and sy != "":
                        return left(Ls.col(name))
                    if sy == "" and sx != "":
                        return right(Rs.col(name))
                    if inl is None and inr is True:
                        return right(Rs.col(name)) if False else T.opaque(f"column {name!r} may exist on both join sides (suffixes {sfx})")
                    return T.opaque(f"column {name!r} exists on both sides of the join (needs a suffix)")
            if inl is None and inr is None:
                return T.opaque(f"column {name!r}: both join sides are open-world")
            if inr is False or inr is None and inl is True:
                return left(Ls.col(name))
            if inl is False:
                return right(Rs.col(name))
            return left(Ls.col(name))

        lc, rc = Ls.colnames(), Rs.colnames()
        known = None
        if lc is not None and rc is not None:
            known = []
            for c in lc:
                known.append(c if (c in same or c not in rc) else c + sx)
            for c in rc:
                if c in same:
                    continue
                known.append(c if c not in lc else c + sy)
        g = Frame(base, known=known, resolver=resolver)
        g.index = self.index_term(Ls) if keep_left_index else ("range", base)
        g.index_name = Ls.index_name if keep_left_index else None
        self.log("join", node, how=how, left=Ls.ctx(), right=Rs.ctx(), left_keys=[str(k) for k in lk], right_keys=[str(k) for k in rk],
                 left_key_terms=lkt, right_key_terms=rkt, suffixes=sfx, dst=g.obj, left_obj=L.obj, right_obj=R.obj,
                 right_cols=rc, left_cols=lc, validate=to_term(validate))
        return g

    # -- concat / melt
    def concat_columns(self, frames: List[Any], kw, node) -> Any:
        """pd.concat(axis=1, keys=[...]): index-aligned column-wise concat, columns named key<US>col"""
        keys = kw.get("keys")
        how = kw.get("join", "outer")
        fs = [f.derive() for f in frames]
        if not (isinstance(keys, list) and len(keys) == len(fs) and all(isinstance(k, str) for k in keys)) or any(f.colnames() is None for f in fs):
            return Frame(("opaque-concat1", self.I.new_id()))
        base = ("concat1", how, tuple(f.ctx() for f in fs), tuple(self.index_term(f) for f in fs))
        g = Frame(base, known=[])
        for i, (k, f) in enumerate(zip(keys, fs)):
            for c in f.colnames():
                t = ("c1col", base, i, f.col(c))
                g.setcol(f"{k}\x1f{c}", ("nullable", t) if how == "outer" else t)
        g.index = ("c1index", base)
        self.log("concat-columns", node, how=how, keys=keys, parts=[f.ctx() for f in fs], index_terms=[self.index_term(f) for f in fs], dst=g.obj)
        return g

    def concat(self, frames: List[Any], kw, node) -> Any:
        axis = kw.get("axis", 0)
        if axis in (1, "columns") and all(isinstance(fr, Frame) for fr in frames) and "keys" not in kw and len(frames) >= 1 \
                and len({(fr.base, fr.rows, fr.order, repr(fr.index)) for fr in frames}) == 1 and all(fr.colnames() is not None for fr in frames):
            # column-wise concat of frames over the SAME rows and index: the union of their columns, left to right
            g = frames[0].derive()
            for fr in frames[1:]:
                for c in fr.colnames():
                    g.setcol(c, fr.col(c))
            self.log("concat-columns-same-rows", node, srcs=[fr.obj for fr in frames], dst=g.obj)
            return g
        if axis in (1, "columns") and all(isinstance(fr, Frame) for fr in frames):
            return self.concat_columns(frames, kw, node)
        parts = []
        for fr in frames:
            if isinstance(fr, Each):
                if isinstance(fr.value, Frame):
                    parts.append(("each", fr.value.derive()))
                else:
                    parts.append(("each-other", to_term(fr.value)))
            elif isinstance(fr, Frame):
                parts.append(("one", fr.derive()))
            elif isinstance(fr, Ser) and fr.frame is not None:
                parts.append(("one", self._ser_as_frame(fr, node) if fr.name else fr.frame.derive()))
            else:
                parts.append(("other", to_term(fr)))
        sig = tuple((k, p.ctx() if isinstance(p, Frame) else p) for k, p in parts)
        base = ("concat", axis, sig)
        fs = [p for k, p in parts if isinstance(p, Frame)]

        def resolver(name):
            return ("ccol", name, tuple(p.col(name) if p.has(name) is not False else ("missing",) for p in fs))

        known = None
        if fs and all(p.colnames() is not None for p in fs) and len(fs) == len(parts):
            known = []
            for p in fs:
                for c in p.colnames():
                    if c not in known:
                        known.append(c)
        g = Frame(base, known=known, resolver=resolver)
        if kw.get("ignore_index") is True:
            g.index = ("range", base)
        else:
            g.index = ("cindex", tuple(self.index_term(p) for p in fs))
        self.log("concat", node, parts=sig, dst=g.obj, axis=axis, kinds=[k for k, _ in parts], srcs=[p.obj for p in fs])
        return g

    def f_melt(self, f, pos, kw, node):
        idv = kw.get("id_vars") or []
        idv = idv if isinstance(idv, list) else [idv]
        vv = kw.get("value_vars")
        var_name = kw.get("var_name", "variable")
        value_name = kw.get("value_name", "value")
        snap = f.derive()
        if vv is None:
            cn = snap.colnames()
            vv = [c for c in cn if c not in idv] if cn is not None else None
        vals = tuple((c, snap.col(c)) for c in vv) if vv is not None else None
        base = ("melt", snap.ctx(), tuple(idv), vals, var_name, value_name)

        def resolver(name):
            if name == var_name:
                return ("meltvar", base)
            if name == value_name:
                return ("meltval", base)
            if name in idv:
                return ("meltid", base, snap.col(name))
            return T.opaque(f"column {name!r} not in melted frame")

        g = Frame(base, known=list(idv) + [var_name, value_name], resolver=resolver)
        g.index = ("range", base)
        self.log("melt", node, src=f.obj, dst=g.obj, id_vars=idv, value_vars=vv, var_name=var_name, value_name=value_name,
                 value_terms=vals, src_ctx=snap.ctx())
        return g

    # -- query / apply
    def f_query(self, f, pos, kw, node):
        q = pos[0] if pos else kw.get("expr")
        pred = self.parse_query(f, q, node, local_dict=kw.get("local_dict"))
        g = f.derive(rows=T.and_(f.rows, pred))
        self.log("filter", node, src=f.obj, dst=g.obj, base=f.base, pred=pred, how="query")
        return g

    def parse_query(self, f: Frame, q: Any, node, local_dict=None) -> T.Term:
        if local_dict is not None and not isinstance(local_dict, dict):
            return T.opaque("query(local_dict=<not a known dict>)")
        holes: Dict[str, T.Term] = {}
        if isinstance(q, str):
            text = q
        else:
            qt = to_term(q)
            text = self._flatten_str(qt, holes)
            if text is None:
                return T.opaque(f"query string not understood: {T.show(qt)[:80]}")
        import re as _re
        text = _re.sub(r"@(\w+)", r"__at_\1", text.strip())
        try:
            tree = ast.parse(text.replace("\n", " "), mode="eval").body
        except SyntaxError:
            return T.opaque(f"query not parseable: {text[:60]}")

        def ev(n):
            if isinstance(n, ast.BoolOp):
                xs = [ev(v) for v in n.values]
                return T.and_(*xs) if isinstance(n.op, ast.And) else T.or_(*xs)
            if isinstance(n, ast.UnaryOp) and isinstance(n.op, ast.Not):
                return T.not_(ev(n.operand))
            if isinstance(n, ast.UnaryOp) and isinstance(n.op, ast.USub):
                return T.neg(ev(n.operand))
            if isinstance(n, ast.BinOp) and isinstance(n.op, (ast.BitAnd, ast.BitOr)):
                return (T.and_ if isinstance(n.op, ast.BitAnd) else T.or_)(ev(n.left), ev(n.right))
            if isinstance(n, ast.BinOp) and isinstance(n.op, (ast.Add, ast.Sub)):
                return (T.add if isinstance(n.op, ast.Add) else T.sub)(ev(n.left), ev(n.right))
            if isinstance(n, ast.BinOp) and isinstance(n.op, (ast.Mult, ast.Div)) and hasattr(T, "mul"):
                return (T.mul if isinstance(n.op, ast.Mult) else T.div)(ev(n.left), ev(n.right))
            if isinstance(n, ast.Compare):
                left = ev(n.left)
                out = []
                for op, r in zip(n.ops, n.comparators):
                    right = ev(r)
                    nm = type(op).__name__
                    if nm in ("In", "NotIn"):
                        t = T.isin(left, list(right[1])) if right[0] == "list" else ("in", left, right)
                        out.append(T.not_(t) if nm == "NotIn" else t)
                    else:
                        out.append(T.cmp({"Lt": "<", "LtE": "<=", "Gt": ">", "GtE": ">=", "Eq": "==", "NotEq": "!="}[nm], left, right))
                    left = right
                return T.and_(*out)
            if isinstance(n, ast.Constant):
                return T.C(n.value)
            if isinstance(n, (ast.List, ast.Tuple)):
                return ("list", tuple(ev(x) for x in n.elts))
            if isinstance(n, ast.Name):
                if n.id in holes:
                    return holes[n.id]
                if n.id.startswith("__at_"):
                    if isinstance(local_dict, dict) and n.id[5:] in local_dict:
                        return to_term(local_dict[n.id[5:]])          # @name is resolved in local_dict first
                    return to_term(self.I.lookup(n.id[5:], node))
                return f.col(n.id)
            if isinstance(n, ast.Call) and isinstance(n.func, ast.Attribute) and not n.keywords and all(isinstance(a_, ast.Constant) or (isinstance(a_, ast.UnaryOp) and isinstance(a_.operand, ast.Constant)) for a_ in n.args):
                # a series method on a column expression (end_ts.shift(1)): what the method gives on that column
                recv = ev(n.func.value)
                r_ = self.series_method(Ser(recv, f.ctx(), f), n.func.attr, [ast.literal_eval(a_) for a_ in n.args], {}, node)
                if isinstance(r_, Ser) and r_.ctx == f.ctx():
                    return r_.term
            return T.opaque(f"query construct {type(n).__name__}")

        return ev(tree)

    def _flatten_str(self, t: T.Term, holes: Dict[str, T.Term]) -> Optional[str]:
        if T.is_const(t):
            return str(t[1])
        if t[0] == "fstr":
            out = []
            for p in t[1]:
                s = self._flatten_str(p, holes)
                if s is None:
                    return None
                out.append(s)
            return "".join(out)
        if t[0] == "strcat":
            a, b = self._flatten_str(t[1], holes), self._flatten_str(t[2], holes)
            return None if a is None or b is None else a + b
        if t[0] == "ite" and all(self._flatten_str(x, {}) is not None for x in t[2:4]) and False:
            return None
        if t[0] == "call" and isinstance(t[1], str) and "query" in t[1]:
            # a query string produced by a helper that was not inlined
            h = f"__hole{len(holes)}__"
            holes[h] = ("querypred", t)
            return f"({h})"
        h = f"__hole{len(holes)}__"
        holes[h] = t
        return h

    def f_eval(self, f, pos, kw, node):
        """DataFrame.eval: one expression -> a Series over the frame's rows; `name = expr` lines -> the frame with those columns (each line sees the earlier ones)"""
        text = pos[0] if pos else kw.get("expr")
        if not isinstance(text, str):
            raise AnalysisError("DataFrame.eval: expression is not a literal string")
        lines = [ln.strip() for ln in text.strip().splitlines() if ln.strip()]
        assigns = []
        for ln in lines:
            try:
                tree = ast.parse(ln, mode="exec").body
            except SyntaxError:
                tree = None
            if tree and len(tree) == 1 and isinstance(tree[0], ast.Assign) and len(tree[0].targets) == 1 and isinstance(tree[0].targets[0], ast.Name):
                assigns.append((tree[0].targets[0].id, ast.unparse(tree[0].value)))
            else:
                assigns.append((None, ln))
        if len(assigns) == 1 and assigns[0][0] is None:
            t = self.parse_query(f, assigns[0][1], node)
            return Ser(t, f.ctx(), f)
        if any(a is None for a, _ in assigns):
            raise AnalysisError("DataFrame.eval: a multi-line expression mixes assignments and values")
        if kw.get("inplace") is True:
            for name, expr in assigns:
                self.set_column(f, name, Ser(self.parse_query(f, expr, node), f.ctx(), f), node)
            return None
        g = self.newframe(f, node, "eval")
        for name, expr in assigns:
            g.setcol(name, self.parse_query(g, expr, node))
            self.log("assign-col", node, dst=g.obj, column=name, term=g.cols[name])
        return g

    def f_apply(self, f, pos, kw, node):
        fn = pos[0] if pos else kw.get("func")
        axis = kw.get("axis", 0)
        if isinstance(fn, FuncRef) and axis in (1, "columns"):
            row = self.row_obj(f, ("row",))
            r = self.I.call_merged(fn, [row], {}, node)
            return Ser(_strip_row(to_term(r)), f.ctx(), f)
        self.log("unmodelled", node, what="DataFrame.apply axis=0")
        return Ser(("map", to_term(fn), ("frame", f.ctx())), f.ctx(), f)

    def f_pipe(self, f, pos, kw, node):
        return self.M.invoke(pos[0], [f] + pos[1:], kw, node)

    def f_agg(self, f, pos, kw, node):
        return Frame(("frameagg", to_term(pos[0] if pos else None), f.ctx()))

    f_aggregate = f_agg


def _strip_row(t: Any) -> Any:
    """('at', ('row',), term) -> term : a row-wise lambda applied to every row is the column term itself"""
    if isinstance(t, tuple):
        if len(t) == 3 and t[0] == "at" and t[1] == ("row",):
            return _strip_row(t[2])
        return tuple(_strip_row(x) for x in t)
    return t
