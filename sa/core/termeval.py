"""Concrete evaluation of column terms on small tables (used to validate the reference TEMPLATES exhaustively on a bounded
domain: the terms extracted from the code are interpreted by this module, the repository code itself is never run).

Supported: col, const, lin, cmp, eq/ne, and/or/not, ite, win(shift|cumsum|cummax|cummin), agg(min|max|first|last|sum|count) with group keys,
contexts (base, row predicate, order) with 'sort' orders.  Anything else raises Unsupported."""
from __future__ import annotations

from typing import Any, Dict, List, Tuple

from . import terms as T


class Unsupported(Exception):
    pass


class Table:
    def __init__(self, base: Any, rows: List[Dict[str, Any]]):
        self.base, self.rows = base, rows


def ctx_rows(tab: Table, ctx) -> List[Dict[str, Any]]:
    k = (id(tab), "ctx", ctx)
    if k in _cache:
        return _cache[k]
    base, pred, order = ctx
    if base != tab.base:
        raise Unsupported(f"context over another base {T.show(base)[:40]}")
    rows = [r for r in tab.rows if truth(row_eval(pred, r, tab))]
    _cache[k] = apply_order(rows, order, tab)
    return _cache[k]


def apply_order(rows, order, tab):
    if order is None:
        return rows
    if order[0] == "sort":
        _, by, asc, kind, prev = order
        rows = apply_order(rows, prev, tab) if prev is not None else rows
        ascs = list(asc) if isinstance(asc, (list, tuple)) else [asc] * len(by)
        out = list(rows)
        for t, a in reversed(list(zip(by, ascs))):       # stable multi-key sort
            out.sort(key=lambda r: row_eval(t, r, tab), reverse=not a)
        return out
    raise Unsupported(f"order {order[0]}")


def truth(v) -> bool:
    return bool(v) and v == v


def row_eval(t, row, tab: Table):
    h = t[0]
    if h == "const":
        return t[1]
    if h == "col":
        if t[1] != tab.base:
            raise Unsupported("column of another frame")
        return row[t[2]]
    if h == "lin":
        tot = t[2]
        for a, c in t[1]:
            v = row_eval(a, row, tab)
            if v is None:
                return None
            tot += c * v
        return tot
    if h == "cmp":
        v = row_eval(t[2], row, tab)
        if v is None:
            return t[1] == "!="          # comparisons with NaN are False, except !=
        return {"<": v < 0, "<=": v <= 0, ">": v > 0, ">=": v >= 0, "==": v == 0, "!=": v != 0}[t[1]]
    if h in ("eq", "ne"):
        a, b = row_eval(t[1], row, tab), row_eval(t[2], row, tab)
        return (a == b) if h == "eq" else (a != b)
    if h == "and":
        return all(truth(row_eval(x, row, tab)) for x in t[1])
    if h == "or":
        return any(truth(row_eval(x, row, tab)) for x in t[1])
    if h == "not":
        return not truth(row_eval(t[1], row, tab))
    if h == "ite":
        return row_eval(t[2], row, tab) if truth(row_eval(t[1], row, tab)) else row_eval(t[3], row, tab)
    if h in ("clip_lo", "clip_hi"):
        a, b = row_eval(t[1], row, tab), row_eval(t[2], row, tab)
        return max(a, b) if h == "clip_lo" else min(a, b)
    if h == "win":
        seq = ctx_rows(tab, t[4])
        vals = column(t, tab)
        for r, v in zip(seq, vals):
            if r is row:
                return v
        raise Unsupported("row outside the window context")
    raise Unsupported(f"term {h}")


_cache: Dict[Any, list] = {}


def column(t, tab: Table) -> list:
    """values of a window term over its own context, in context order"""
    key = (id(tab), t)
    if key in _cache:
        return _cache[key]
    _, fn, params, inner, ctx = t
    seq = ctx_rows(tab, ctx)
    vals = [row_eval(inner, r, tab) for r in seq]
    if fn == "shift":
        k = params[0]
        out = [None] * len(vals)
        for i in range(len(vals)):
            j = i - k
            if 0 <= j < len(vals):
                out[i] = vals[j]
    elif fn in ("cumsum", "cummax", "cummin"):
        out, acc = [], None
        for v in vals:
            if v is None:
                out.append(None if fn != "cumsum" else acc)      # pandas skips NaN in cummax/cummin (result NaN) and keeps the running sum
                continue
            vv = int(v) if isinstance(v, bool) else v
            acc = vv if acc is None else (acc + vv if fn == "cumsum" else max(acc, vv) if fn == "cummax" else min(acc, vv))
            out.append(acc)
    else:
        raise Unsupported(f"window {fn}")
    _cache[key] = out
    return out


def group_agg(t, tab: Table) -> Dict[tuple, Any]:
    """('agg', fn, term, ctx, keys) -> {key values: aggregate}"""
    _, fn, inner, ctx, keys = t
    seq = ctx_rows(tab, ctx)
    groups: Dict[tuple, list] = {}
    for r in seq:
        k = tuple(row_eval(kt, r, tab) for kt in keys)
        groups.setdefault(k, []).append(row_eval(inner, r, tab))
    red = {"min": min, "max": max, "sum": sum, "count": len, "first": lambda v: v[0], "last": lambda v: v[-1]}
    if fn not in red:
        raise Unsupported(f"aggregate {fn}")
    return {k: red[fn]([x for x in v if x is not None]) for k, v in groups.items()}


def reset():
    _cache.clear()
