"""Exact language comparison of the (regular) regexes HTA uses to classify names.

`match_equivalent(p, q)`  : {s | re.match(p, s)} == {s | re.match(q, s)}   (prefix match, as re.match)
The regex source is parsed with the standard library's own parser (re._parser), compiled to an
epsilon-NFA (Thompson) whose states carry an 'at start of string' flag for '^', and compared by a
product subset construction over a finite alphabet of character classes.  Back-references, look-around
and flags other than none are outside the fragment and raise Unsupported (-> ANALYSIS-ERROR).
"""
from __future__ import annotations

import re
import re._parser as sre_parse
import re._constants as C
from typing import Dict, FrozenSet, List, Set, Tuple


class Unsupported(Exception):
    pass


class NFA:
    def __init__(self):
        self.eps: Dict[int, List[Tuple[int, str]]] = {}   # state -> [(target, guard)] guard in '', '^', '$'
        self.tr: Dict[int, List[Tuple[object, int]]] = {}  # state -> [(charset predicate, target)]
        self.n = 0

    def new(self) -> int:
        self.n += 1
        return self.n - 1

    def e(self, a, b, guard=""):
        self.eps.setdefault(a, []).append((b, guard))

    def t(self, a, pred, b):
        self.tr.setdefault(a, []).append((pred, b))


def _charset(items) -> Tuple[bool, list]:
    neg = False
    out = []
    for op, av in items:
        if op is C.NEGATE:
            neg = True
        elif op is C.LITERAL:
            out.append(("lit", av))
        elif op is C.RANGE:
            out.append(("range", av[0], av[1]))
        elif op is C.CATEGORY:
            out.append(("cat", str(av)))
        else:
            raise Unsupported(f"charset item {op}")
    return neg, out


_CATS = {
    "CATEGORY_DIGIT": lambda ch: ch.isdigit(), "CATEGORY_NOT_DIGIT": lambda ch: not ch.isdigit(),
    "CATEGORY_SPACE": lambda ch: ch.isspace(), "CATEGORY_NOT_SPACE": lambda ch: not ch.isspace(),
    "CATEGORY_WORD": lambda ch: ch.isalnum() or ch == "_", "CATEGORY_NOT_WORD": lambda ch: not (ch.isalnum() or ch == "_"),
}


def _pred_matches(pred, ch: str) -> bool:
    kind = pred[0]
    if kind == "lit":
        return ord(ch) == pred[1]
    if kind == "notlit":
        return ord(ch) != pred[1]
    if kind == "any":
        return ch != "\n"
    if kind == "set":
        neg, items = pred[1], pred[2]
        hit = False
        for it in items:
            if it[0] == "lit" and ord(ch) == it[1]:
                hit = True
            elif it[0] == "range" and it[1] <= ord(ch) <= it[2]:
                hit = True
            elif it[0] == "cat" and _CATS[it[1]](ch):
                hit = True
        return hit != neg
    raise Unsupported(str(pred))


def _build(nfa: NFA, seq, start: int) -> int:
    cur = start
    for op, av in seq:
        nxt = nfa.new()
        if op is C.LITERAL:
            nfa.t(cur, ("lit", av), nxt)
        elif op is C.NOT_LITERAL:
            nfa.t(cur, ("notlit", av), nxt)
        elif op is C.ANY:
            nfa.t(cur, ("any",), nxt)
        elif op is C.IN:
            neg, items = _charset(av)
            nfa.t(cur, ("set", neg, tuple(items)), nxt)
        elif op is C.BRANCH:
            for alt in av[1]:
                s = nfa.new()
                nfa.e(cur, s)
                e = _build(nfa, alt, s)
                nfa.e(e, nxt)
        elif op is C.SUBPATTERN:
            if av[1] or av[2]:
                raise Unsupported("inline flags")
            e = _build(nfa, av[3], cur)
            nfa.e(e, nxt)
        elif op in (C.MAX_REPEAT, C.MIN_REPEAT):
            lo, hi, body = av
            if lo > 8 or (hi is not C.MAXREPEAT and hi > 8):
                raise Unsupported("large repeat")
            p = cur
            for _ in range(lo):
                p = _build(nfa, body, p)
            if hi is C.MAXREPEAT:
                loop = nfa.new()
                nfa.e(p, loop)
                e = _build(nfa, body, loop)
                nfa.e(e, loop)
                nfa.e(loop, nxt)
            else:
                nfa.e(p, nxt)
                for _ in range(hi - lo):
                    p = _build(nfa, body, p)
                    nfa.e(p, nxt)
        elif op is C.AT:
            if av is C.AT_BEGINNING or av is C.AT_BEGINNING_STRING:
                nfa.e(cur, nxt, "^")
            elif av is C.AT_END or av is C.AT_END_STRING:
                nfa.e(cur, nxt, "$")
            else:
                raise Unsupported(f"anchor {av}")
        else:
            raise Unsupported(f"regex construct {op}")
        cur = nxt
    return cur


def compile_nfa(pattern: str):
    tree = sre_parse.parse(pattern)
    if tree.state.flags & ~re.UNICODE:
        raise Unsupported("flags")
    nfa = NFA()
    s = nfa.new()
    e = _build(nfa, list(tree), s)
    return nfa, s, e


def _alphabet(*patterns: str) -> List[str]:
    chars: Set[str] = set("\n aZ0_-")
    for p in patterns:
        for ch in p:
            chars.add(ch)
            for d in (-1, 1):
                o = ord(ch) + d
                if 0 < o < 0x10FFFF:
                    chars.add(chr(o))
    chars.add("\x01")
    return sorted(chars)


def _closure(nfa: NFA, states: Set[Tuple[int, bool]], at_end: bool = False) -> FrozenSet[Tuple[int, bool]]:
    """states are (nfa state, still_at_start)"""
    todo = list(states)
    seen = set(states)
    while todo:
        s, st = todo.pop()
        for b, g in nfa.eps.get(s, []):
            if g == "^" and not st:
                continue
            if g == "$" and not at_end:
                continue
            x = (b, st)
            if x not in seen:
                seen.add(x)
                todo.append(x)
    return frozenset(seen)


def _step(nfa: NFA, S: FrozenSet[Tuple[int, bool]], ch: str) -> FrozenSet[Tuple[int, bool]]:
    out = set()
    for s, st in S:
        for pred, b in nfa.tr.get(s, []):
            if _pred_matches(pred, ch):
                out.add((b, False))
    return _closure(nfa, out)


def _accepting_prefix(nfa: NFA, S, end: int) -> bool:
    # '$' guards need end-of-string: conservative treatment - a pattern with '$' accepts here only if it can
    # reach `end` with the guard enabled (used for the whole-string check below)
    return any(s == end for s, _ in S)


def _accept_at_end(nfa: NFA, S, end: int) -> bool:
    return any(s == end for s, _ in _closure(nfa, set(S), at_end=True))


def match_equivalent(p: str, q: str):
    """(equal?, witness string or None) for the languages {s : re.match(p,s)} and {s : re.match(q,s)}.
    '$' / '\\Z' are treated as 'end of the string' (the 'before a trailing newline' case of '$' is not modelled)."""
    (n1, s1, e1), (n2, s2, e2) = compile_nfa(p), compile_nfa(q)
    alpha = _alphabet(p, q)
    start = (_closure(n1, {(s1, True)}), _closure(n2, {(s2, True)}), False, False)
    seen = {start: ""}
    todo = [start]
    while todo:
        st = todo.pop(0)
        A, B, ma, mb = st
        w = seen[st]
        ma2 = ma or _accepting_prefix(n1, A, e1)          # a prefix matched without needing the end of the string
        mb2 = mb or _accepting_prefix(n2, B, e2)
        acc1 = ma2 or _accept_at_end(n1, A, e1)           # does the whole string w match?
        acc2 = mb2 or _accept_at_end(n2, B, e2)
        if acc1 != acc2:
            return False, w
        if ma2 and mb2:
            continue  # both matched a prefix unconditionally: every extension matches in both
        for ch in alpha:
            nx = (_step(n1, A, ch), _step(n2, B, ch), ma2, mb2)
            if nx not in seen:
                seen[nx] = w + ch
                todo.append(nx)
        if len(seen) > 20000:
            raise Unsupported("state explosion")
    return True, None


def self_test() -> None:
    assert match_equivalent(r"^nccl.*Kernel", r"nccl.*Kernel")[0]
    assert match_equivalent(r"(^Memcpy)|(^Memset)|(^dma)", r"Mem(cpy|set)|dma")[0]
    assert not match_equivalent(r"^nccl.*Kernel", r"nccl.*kernel")[0]
    assert not match_equivalent(r"(^Memcpy)|(^Memset)", r"(^Memcpy)|(^Memset)|(^dma)")[0]
    assert not match_equivalent(r"^nccl.*Kernel", r".*nccl.*Kernel")[0]
    ok, w = match_equivalent(r"(^nccl.*Kernel)|(.*(Memcpy)|(Memset))|(.*Sync)", r"(^nccl.*Kernel)|(.*(Memcpy|Memset))|(.*Sync)")
    assert not ok  # 'Memset' only at the start in the original (precedence of | inside the group)
    assert not match_equivalent(r"^nccl.*Kernel", r"nccl.*Kernel$")[0]
    assert match_equivalent(r"^abc$", r"abc$")[0] and not match_equivalent(r"abc$", r"abc")[0]
