"""Abstract values of the column-term evaluator (E2)."""
from __future__ import annotations

import itertools
from typing import Any, Dict, List, Optional, Tuple

from . import terms as T

_ids = itertools.count(1)


class Frame:
    """Abstract DataFrame.

    base  : hashable origin of the rows (('param', name) | ('gb', ...) | ('join', ...) | ...)
    rows  : predicate term selecting rows of `base`
    order : None (base order) or ('sort', by_terms, ascending, kind, previous_order)
    cols  : explicit column definitions (derived / overwritten columns) name -> term
    known : None = open world (any name is a column of the base) or the set of existing columns
    index : None (base index) | ('range',) | term of the column installed by set_index
    """

    def __init__(self, base, rows=T.TRUE, order=None, cols=None, known=None, index=None, resolver=None):
        self.base = base
        self.rows = rows
        self.order = order
        self.cols: Dict[str, T.Term] = dict(cols or {})
        self.known = None if known is None else list(known)
        self.dropped: set = set()
        self.index = index
        self.index_name: Optional[str] = None
        self.obj = next(_ids)          # object identity (alias analysis): new for every new DataFrame object
        self.resolver = resolver       # optional fallback: name -> term (joins, concat, melt)
        self.is_view_of: Optional[int] = None

    # -- identity / context
    def ctx(self):
        return (self.base, self.rows, self.order)

    def derive(self, **kw) -> "Frame":
        f = Frame(self.base, self.rows, self.order, self.cols, self.known, self.index, self.resolver)
        f.dropped = set(self.dropped)
        f.index_name = self.index_name
        for k, v in kw.items():
            setattr(f, k, v)
        return f

    def has(self, name: str) -> Optional[bool]:
        if name in self.dropped:
            return False
        if name in self.cols:
            return True
        if self.known is not None:
            return name in self.known
        return None  # unknown (open world)

    def col(self, name: str) -> T.Term:
        if name in self.dropped:
            return T.opaque(f"column {name!r} was dropped")
        if name in self.cols:
            return self.cols[name]
        if self.resolver is not None:
            r = self.resolver(name)
            if r is not None:
                return r
        if self.known is not None and name not in self.known:
            return T.opaque(f"column {name!r} not in frame")
        return T.col(self.base, name)

    def setcol(self, name: str, term: T.Term) -> None:
        self.cols[name] = term
        self.dropped.discard(name)
        if self.known is not None and name not in self.known:
            self.known.append(name)

    def colnames(self) -> Optional[List[str]]:
        if self.known is None:
            return None
        return [c for c in self.known if c not in self.dropped]

    def __repr__(self):
        return f"Frame<{T._ctx(self.ctx())} cols={list(self.cols)} obj={self.obj}>"


class Ser:
    """Abstract Series: a term evaluated row-wise in a frame context."""

    def __init__(self, term: T.Term, ctx, frame: Optional[Frame] = None, name: Optional[str] = None, positional: bool = False):
        self.term = term
        self.ctx = ctx
        self.frame = frame
        self.name = name
        self.positional = positional  # .values / .to_numpy(): aligned by position, not label

    def with_term(self, t: T.Term) -> "Ser":
        return Ser(t, self.ctx, self.frame, None, self.positional)

    def __repr__(self):
        return f"Ser<{T.show(self.term)}>"


class GroupBy:
    def __init__(self, frame: Frame, keys: Tuple[str, ...], as_index: bool = True, sel: Any = None, sort: bool = True):
        self.frame, self.keys, self.as_index, self.sel, self.sort = frame, tuple(keys), as_index, sel, sort


class DefaultDict(dict):
    """collections.defaultdict(list|int|str|dict)"""
    factory = "list"

    def make(self):
        return {"list": [], "int": 0, "str": "", "dict": {}, "set": set(), "float": 0.0}.get(self.factory)


class Obj:
    """opaque object with attributes (self, cls, Trace, symbol table ...)"""

    def __init__(self, name: str, cls: Optional[Tuple[Any, str]] = None, attrs: Optional[dict] = None):
        self.name = name
        self.cls = cls          # (Module, class qualname) when known
        self.attrs = attrs or {}

    def term(self) -> T.Term:
        return ("obj", self.name)

    def __repr__(self):
        return f"Obj<{self.name}>"


class FuncRef:
    def __init__(self, mod, node, qualname: str, closure=None, bound_self=None):
        self.mod, self.node, self.qualname, self.closure, self.bound_self = mod, node, qualname, closure, bound_self

    def __repr__(self):
        return f"Func<{self.qualname}>"


class ClassRef:
    def __init__(self, mod, qualname: str):
        self.mod, self.qualname = mod, qualname

    def __repr__(self):
        return f"Class<{self.qualname}>"


class EnumRef:
    def __init__(self, mod, qualname: str, members: dict):
        self.mod, self.qualname, self.members = mod, qualname, members


class ReMatch:
    """the result of a regular-expression match on a CONCRETE string (computed by the library)"""

    def __init__(self, m):
        self.m = m


class GuardedSeq:
    """the elements a generator expression over a short concrete sequence produces when its filter is symbolic: [(condition, value), ...] in order
    (element i is present iff condition i holds).  `next(g, default)` is the first present element; anything else sees the term."""

    def __init__(self, entries):
        self.entries = list(entries)


class GenCall:
    """a call of a generator function (its body contains `yield`): nothing runs until it is iterated; the interpreter then runs the body and
    executes the consumer's loop body at every `yield` (generator fusion)"""

    def __init__(self, ref, pos, kw):
        self.ref, self.pos, self.kw = ref, list(pos), dict(kw)


class Each:
    """marks a value produced once per iteration of a loop that was evaluated symbolically"""

    def __init__(self, value: Any, loopvar: Any = None):
        self.value, self.loopvar = value, loopvar

    def __repr__(self):
        return f"Each<{self.value!r}>"


class ListIter:
    """iter(<list of known elements>): the iterator's position is part of the state (next() advances it; exhausted -> StopIteration)"""

    def __init__(self, items):
        self.items, self.pos = list(items), 0

    def __repr__(self):
        return f"ListIter<{self.pos}/{len(self.items)}>"


class ExtMod:
    """an external module / namespace (pd, np, math, nx, ...)"""

    def __init__(self, name: str):
        self.name = name

    def __repr__(self):
        return f"ExtMod<{self.name}>"


def to_term(v: Any) -> T.Term:
    """best-effort scalar term of a value"""
    if isinstance(v, tuple) and v and isinstance(v[0], str):
        return v
    if isinstance(v, Ser):
        return v.term
    if isinstance(v, Obj):
        return v.term()
    if isinstance(v, (int, float, str, bool)) or v is None:
        return T.C(v)
    if isinstance(v, (list,)):
        return ("list", tuple(to_term(x) for x in v))
    if isinstance(v, PyTuple):
        return ("tuple", tuple(to_term(x) for x in v.items))
    if isinstance(v, dict):
        return ("dict", tuple(sorted(((to_term(k), to_term(x)) for k, x in v.items()), key=repr)))
    if isinstance(v, (set, frozenset)):
        whole = [x for x in v if isinstance(x, tuple) and len(x) == 2 and x[0] == "allof"]          # s.update(<symbolic collection>): all of its elements
        if whole:
            rest = [x for x in v if x not in whole]
            if len(whole) == 1 and not rest:
                return ("set", whole[0][1])          # the form set(<collection>) has
            return ("setunion", tuple(sorted([w[1] for w in whole] + ([("set", tuple(sorted((to_term(x) for x in rest), key=repr)))] if rest else []), key=repr)))
        return ("set", tuple(sorted((to_term(x) for x in v), key=repr)))
    if isinstance(v, Frame):
        return ("frame", v.ctx())
    if isinstance(v, Each):
        return ("each", to_term(v.value))
    if isinstance(v, ListIter):
        return ("iter", ("list", tuple(to_term(x) for x in v.items[v.pos:])))
    if isinstance(v, ReMatch):
        return ("rematch", v.m.group(0))
    if isinstance(v, GuardedSeq):
        return ("gseq", tuple((c, to_term(x)) for c, x in v.entries))
    if isinstance(v, GenCall):
        return ("gencall", v.ref.qualname) + tuple(to_term(x) for x in v.pos) + tuple(("kw", k, to_term(x)) for k, x in sorted(v.kw.items()))
    if isinstance(v, FuncRef):
        return ("func", v.qualname)
    if isinstance(v, ClassRef):
        return ("class", v.qualname)
    if isinstance(v, GroupBy):
        return ("groupby", v.frame.ctx(), v.keys)
    if isinstance(v, ExtMod):
        return ("ext", v.name)
    if isinstance(v, EnumRef):
        return ("class", v.qualname)
    if hasattr(v, "row_frame"):
        return ("rowiter", v.row_frame.ctx())
    if isinstance(v, Columns):
        n = v.names()
        return ("columns", v.frame.base, tuple(n) if n is not None else None)
    return T.opaque(f"value {type(v).__name__}")


class Columns:
    """df.columns"""

    def __init__(self, frame: Frame):
        self.frame = frame

    def names(self):
        return self.frame.colnames()

    def __repr__(self):
        return f"Columns<{self.frame!r}>"


class PyTuple:
    def __init__(self, items):
        self.items = list(items)

    def __repr__(self):
        return f"PyTuple{self.items!r}"
