"""Shared reporting: obligations, findings, known findings, evidence, replay files, exit codes."""
from __future__ import annotations

import json
import os
import sys
import time
from typing import Any, Dict, List, Optional

VERIF = os.path.dirname(os.path.dirname(os.path.dirname(os.path.abspath(__file__))))
EVIDENCE_DIR = os.environ.get("VERIF_EVIDENCE_DIR") or os.path.join(VERIF, "evidence")
REPLAY_DIR = os.path.join(EVIDENCE_DIR, "replay")
KNOWN = os.path.join(VERIF, "known_findings.json")

TRUSTED = [
    "CPython ast parser (source text -> syntax tree)",
    "documented pandas / numpy / networkx API semantics for the modelled operations (sa/core/colflow.py table)",
    "Python's sorted()/list.sort being correct for a strict weak order",
    "the checker's own normaliser and spec tables (validated two-sidedly by the thorough-tier self-test)",
]


def _j(x: Any) -> Any:
    """make a value json-serialisable (terms are nested tuples)"""
    if isinstance(x, (str, int, float, bool)) or x is None:
        return x
    if isinstance(x, (list, tuple, set, frozenset)):
        return [_j(i) for i in (sorted(x, key=repr) if isinstance(x, (set, frozenset)) else x)]
    if isinstance(x, dict):
        return {str(k): _j(v) for k, v in x.items()}
    return repr(x)


class Check:
    def __init__(self, pid: str, tier: str = "quick", seed: int = 0, explanation: str = ""):
        self.pid = pid
        self.tier = tier
        self.seed = seed
        self.explanation = explanation
        self.t0 = time.time()
        self.obligations: List[Dict[str, Any]] = []
        self.errors: List[str] = []
        self.notes: List[str] = []
        self.analysed: Dict[str, Any] = {}
        self.assumptions: List[str] = []
        self.floors: Dict[str, int] = {}
        self.selftest: Optional[Dict[str, Any]] = None
        try:
            self.known = json.load(open(KNOWN))["findings"]
        except Exception as e:  # pragma: no cover
            self.known = []
            self.errors.append(f"cannot read known_findings.json: {e}")

    # ------------------------------------------------------------------ recording
    def ob(self, rule: str, instance: str, ok: Optional[bool], where: str = "", found: Any = None,
           accepted: Any = None, why: str = "", key: Optional[str] = None, nontrivial: bool = True, absent_is_unknown: bool = False) -> bool:
        """record one obligation. ok=True discharged, False violated, None not understood."""
        if absent_is_unknown and ok is False and (found is None or (isinstance(found, (list, tuple, dict, set, str)) and len(found) == 0)):
            # verdict discipline (DESIGN 0.2) for rules that LOOK FOR a construct: having recognised none of it (the code is spelled some other way) is "not understood".
            # Opt-in per rule: for other rules an empty finding IS the violation (an argument that is not forwarded, a name set that came out empty)
            ok = None
            why = (why + " " if why else "") + "[the rule recognised none of the constructs it looks for]"
        self.obligations.append({
            "rule": rule, "instance": instance, "ok": ok, "where": where, "found": _j(found),
            "accepted": _j(accepted), "why": why, "key": key or f"{where.split(':')[0]}|{instance}",
            "nontrivial": nontrivial,
        })
        if ok is None:
            self.errors.append(f"{rule} [{instance}] at {where}: not understood: {_j(found)} {why}")
        return bool(ok)

    def error(self, msg: str) -> None:
        self.errors.append(msg)

    def note(self, msg: str) -> None:
        self.notes.append(msg)

    def floor(self, rule: str, n: int) -> None:
        """the rule must have matched at least n instances (no vacuous pass)"""
        self.floors[rule] = n

    def analysed_add(self, kind: str, item: Any) -> None:
        self.analysed.setdefault(kind, [])
        if item not in self.analysed[kind]:
            self.analysed[kind].append(item)

    # ------------------------------------------------------------------ finishing
    def _known_status(self, o: Dict[str, Any]) -> Optional[Dict[str, Any]]:
        for k in self.known:
            if k.get("status") == "known" and k["property"] == self.pid and k["rule"] == o["rule"] and k["key"] == o["key"]:
                return k
        return None

    def finish(self) -> int:
        for rule, n in self.floors.items():
            have = sum(1 for o in self.obligations if o["rule"] == rule or o["rule"].startswith(rule + "."))
            if have < n:
                self.errors.append(f"instance floor: rule {rule} matched {have} instances, expected at least {n} (confirmed by hand)")
        viol, known = [], []
        for o in self.obligations:
            if o["ok"] is False:
                k = self._known_status(o)
                (known if k else viol).append(o)
        wall = time.time() - self.t0
        discharged = sum(1 for o in self.obligations if o["ok"] is True)
        distinct = len({(o["rule"], o["instance"]) for o in self.obligations if o["nontrivial"] and o["ok"] is not None})
        by_rule: Dict[str, int] = {}
        for o in self.obligations:
            by_rule[o["rule"]] = by_rule.get(o["rule"], 0) + 1
        samples = []
        seen_rules = set()
        for o in self.obligations:
            if o["rule"] not in seen_rules:
                seen_rules.add(o["rule"])
                samples.append({k: o[k] for k in ("rule", "instance", "where", "found", "accepted", "ok")})
        replay = None
        if viol:
            os.makedirs(REPLAY_DIR, exist_ok=True)
            replay = os.path.join(REPLAY_DIR, f"{self.pid}.json")
            json.dump({"property": self.pid, "violations": viol, "cmd": f"/venv/bin/python -B check.py {self.pid} --tier {self.tier}"},
                      open(replay, "w"), indent=1)
        ev = {
            "property_id": self.pid,
            "tier": self.tier,
            "seed": self.seed,
            "level": "other",
            "coverage": {
                "explanation": self.explanation,
                "obligations": len(self.obligations),
                "discharged": discharged,
                "evaluations": max(1, len(self.obligations)),
                "distinct_nontrivial": distinct,
                "rule": "one obligation per (rule, rule instance) found by role in /repo's current source; an instance is "
                        "non-trivial when the analysed construct exists and its slot value was positively evaluated (not vacuous)",
                "obligations_by_rule": by_rule,
                "instance_floors": self.floors,
                "samples": samples,
                "analysed": self.analysed,
                "notes": self.notes,
                "known_findings_reported": [o["key"] for o in known],
                "analysis_errors": self.errors,
                "trusted_base": TRUSTED,
                "checker_cmd": f"/venv/bin/python -B check.py {self.pid} --tier {self.tier}",
                "exhaustive": False,
            },
            "assumptions": self.assumptions or ["pandas/numpy API semantics as documented", "input assumptions stated in the property's quantifier"],
            "wall_s": round(wall, 3),
            "violations": len(viol),
        }
        if self.selftest is not None:
            ev["coverage"]["selftest"] = self.selftest
        os.makedirs(EVIDENCE_DIR, exist_ok=True)
        json.dump(ev, open(os.path.join(EVIDENCE_DIR, f"{self.pid}.json"), "w"), indent=1)

        print(f"[{self.pid}] tier={self.tier} obligations={len(self.obligations)} discharged={discharged} "
              f"violations={len(viol)} known={len(known)} errors={len(self.errors)} wall={wall:.2f}s")
        for n in self.notes:
            print(f"NOTE: {n}")
        for o in known:
            k = self._known_status(o)
            print(f"KNOWN-FINDING: property={self.pid} {o['rule']} {o['key']} :: {k['what'] if k else ''}")
        if self.errors:
            for e in self.errors:
                print(f"ANALYSIS-ERROR: property={self.pid} {e}")
        for o in viol:
            print(f"  violated {o['rule']} [{o['instance']}] at {o['where']}: found {json.dumps(o['found'])[:300]} ; "
                  f"accepted {json.dumps(o['accepted'])[:300]} {o['why']}")
        if viol:
            print(f"VIOLATION property={self.pid} replay={replay}")
            return 1
        if self.errors:
            return 2
        return 0
