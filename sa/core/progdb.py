"""E0 - program database: every hta/**/*.py of the working tree parsed with `ast`.

Nothing from hta is imported or executed.  Anchors are looked up by qualified name;
a missing anchor raises AnalysisError (exit 2), never a violation.
"""
from __future__ import annotations

import ast
import hashlib
import os
from typing import Dict, Iterator, List, Optional, Tuple

REPO = os.environ.get("HTA_REPO", "/repo")


class AnalysisError(Exception):
    """Something the analysis does not understand / an anchor that vanished (exit 2)."""


class Module:
    def __init__(self, name: str, path: str, source: str, tree: Optional[ast.AST] = None):
        self.name = name
        self.path = path
        self.source = source
        self.tree = tree if tree is not None else ast.parse(source, filename=path)
        self.lines = source.splitlines()
        # qualname -> def node
        self.functions: Dict[str, ast.AST] = {}
        self.classes: Dict[str, ast.ClassDef] = {}
        # parent links
        self.parent: Dict[int, ast.AST] = {}
        # local name -> (module, attr|None)  for imports
        self.imports: Dict[str, Tuple[str, Optional[str]]] = {}
        self.constants: Dict[str, ast.expr] = {}
        self._index()

    def _index(self) -> None:
        for node in ast.walk(self.tree):
            for ch in ast.iter_child_nodes(node):
                self.parent[id(ch)] = node

        def rec(body, prefix):
            for st in body:
                if isinstance(st, (ast.FunctionDef, ast.AsyncFunctionDef)):
                    q = prefix + st.name
                    self.functions[q] = st
                    rec(st.body, q + ".")
                elif isinstance(st, ast.ClassDef):
                    q = prefix + st.name
                    self.classes[q] = st
                    rec(st.body, q + ".")
                elif isinstance(st, (ast.If, ast.For, ast.While, ast.With, ast.Try)):
                    for fld in ("body", "orelse", "finalbody"):
                        rec(getattr(st, fld, []) or [], prefix)
                    for h in getattr(st, "handlers", []) or []:
                        rec(h.body, prefix)

        rec(self.tree.body, "")
        for st in self.tree.body:
            if isinstance(st, ast.Import):
                for a in st.names:
                    self.imports[a.asname or a.name.split(".")[0]] = (a.name, None)
            elif isinstance(st, ast.ImportFrom) and st.module:
                for a in st.names:
                    self.imports[a.asname or a.name] = (st.module, a.name)
            elif isinstance(st, ast.Assign) and len(st.targets) == 1 and isinstance(st.targets[0], ast.Name):
                self.constants[st.targets[0].id] = st.value
            elif isinstance(st, ast.AnnAssign) and isinstance(st.target, ast.Name) and st.value is not None:
                self.constants[st.target.id] = st.value

    def func(self, qualname: str) -> ast.FunctionDef:
        f = self.functions.get(qualname)
        if f is None:
            raise AnalysisError(f"anchor vanished: function {self.name}:{qualname} not found")
        return f

    def cls(self, qualname: str) -> ast.ClassDef:
        c = self.classes.get(qualname)
        if c is None:
            raise AnalysisError(f"anchor vanished: class {self.name}:{qualname} not found")
        return c

    def enum_members(self, clsname: str) -> Dict[str, object]:
        c = self.cls(clsname)
        out = {}
        for st in c.body:
            if isinstance(st, ast.Assign) and len(st.targets) == 1 and isinstance(st.targets[0], ast.Name):
                try:
                    out[st.targets[0].id] = ast.literal_eval(st.value)
                except Exception:
                    out[st.targets[0].id] = ast.unparse(st.value)
        return out

    def const_value(self, name: str):
        if name not in self.constants:
            raise AnalysisError(f"anchor vanished: constant {self.name}:{name}")
        return self.constants[name]

    def qualname_of(self, node: ast.AST) -> str:
        for q, f in self.functions.items():
            if f is node:
                return q
        return "?"

    def enclosing_function(self, node: ast.AST) -> Optional[ast.AST]:
        cur = self.parent.get(id(node))
        while cur is not None and not isinstance(cur, (ast.FunctionDef, ast.AsyncFunctionDef)):
            cur = self.parent.get(id(cur))
        return cur

    def loc(self, node: ast.AST) -> str:
        return f"{os.path.relpath(self.path, REPO)}:{getattr(node, '_orig_lineno', getattr(node, 'lineno', 0))}"

    def stmt_text(self, node: ast.AST) -> str:
        try:
            return " ".join(ast.unparse(node).split())
        except Exception:
            return "?"


class ProgramDB:
    def __init__(self, repo: str = REPO):
        self.repo = repo
        self.modules: Dict[str, Module] = {}
        root = os.path.join(repo, "hta")
        if not os.path.isdir(root):
            raise AnalysisError(f"{root} not found")
        h = hashlib.sha256()
        nlines = 0
        parsed = []
        for dp, dn, fn in sorted(os.walk(root)):
            dn.sort()
            for f in sorted(fn):
                if not f.endswith(".py"):
                    continue
                path = os.path.join(dp, f)
                with open(path, encoding="utf-8") as fh:
                    src = fh.read()
                rel = os.path.relpath(path, repo)
                name = rel[:-3].replace(os.sep, ".")
                if name.endswith(".__init__"):
                    name = name[: -len(".__init__")]
                try:
                    parsed.append((name, path, src, ast.parse(src, filename=path)))
                except SyntaxError as e:
                    raise AnalysisError(f"cannot parse {rel}: {e}")
                h.update(rel.encode())
                h.update(src.encode())
                nlines += src.count("\n")
        # argument-passing style is not behaviour: calls to callables defined exactly once in hta are put into a canonical
        # form (leading arguments positional) before anything is indexed, so that no rule or hook depends on f(a, b) vs f(x=a, y=b)
        self.sigs = _signature_table([t for _, _, _, t in parsed])
        global SIGS
        SIGS = self.sigs
        self.canonicalised_calls = 0
        for name, path, src, tree in parsed:
            self.canonicalised_calls += _canonicalise_calls(tree, self.sigs)
            _canonicalise_local_annotations(tree)
            self.modules[name] = Module(name, path, src, tree)
        self.digest = h.hexdigest()[:16]
        self.nlines = nlines

    def mod(self, name: str) -> Module:
        m = self.modules.get(name)
        if m is None:
            raise AnalysisError(f"anchor vanished: module {name} not found")
        return m

    def func(self, ref: str) -> Tuple[Module, ast.FunctionDef]:
        """ref = 'hta.common.trace:Trace._align_all_ranks'"""
        mn, q = ref.split(":")
        m = self.mod(mn)
        return m, m.func(q)

    def resolve_name(self, mod: Module, name: str) -> Optional[Tuple[Module, str]]:
        """Resolve a bare name used in `mod` to (defining module, qualname) inside hta."""
        if name in mod.functions or name in mod.classes:
            return mod, name
        imp = mod.imports.get(name)
        if imp and imp[1] is not None and imp[0] in self.modules:
            tm = self.modules[imp[0]]
            if imp[1] in tm.functions or imp[1] in tm.classes:
                return tm, imp[1]
            # re-exported
            imp2 = tm.imports.get(imp[1])
            if imp2 and imp2[0] in self.modules:
                return self.resolve_name(tm, imp[1])
        return None

    def all_functions(self) -> Iterator[Tuple[Module, str, ast.AST]]:
        for m in self.modules.values():
            for q, f in m.functions.items():
                yield m, q, f

    def stats(self) -> dict:
        return {
            "modules": len(self.modules),
            "functions": sum(len(m.functions) for m in self.modules.values()),
            "lines": self.nlines,
            "source_digest": self.digest,
        }


def walk_no_nested(node: ast.AST) -> Iterator[ast.AST]:
    """ast.walk that does not descend into nested function/class definitions or lambdas'
    siblings (lambdas ARE descended: they are expressions of this function)."""
    stack = [node]
    first = True
    while stack:
        n = stack.pop()
        if not first and isinstance(n, (ast.FunctionDef, ast.AsyncFunctionDef, ast.ClassDef)):
            continue
        first = False
        yield n
        stack.extend(reversed(list(ast.iter_child_nodes(n))))


def call_name(call: ast.Call) -> str:
    """dotted text of the callee expression (best effort)"""
    f = call.func
    parts: List[str] = []
    while isinstance(f, ast.Attribute):
        parts.append(f.attr)
        f = f.value
    if isinstance(f, ast.Name):
        parts.append(f.id)
    else:
        parts.append("<expr>")
    return ".".join(reversed(parts))


def kwarg(call: ast.Call, name: str) -> Optional[ast.expr]:
    """the argument bound to parameter `name`: a keyword, or - for callees in the signature table - the positional argument at that parameter's place"""
    for k in call.keywords:
        if k.arg == name:
            return k.value
    sig = _sig_of(call, SIGS)
    if sig is not None and name in sig and sig.index(name) < len(call.args) and not any(isinstance(a, ast.Starred) for a in call.args):
        return call.args[sig.index(name)]
    return None


def bound_args(call: ast.Call) -> Dict[str, ast.expr]:
    """parameter name -> argument expression: keywords, plus positionals for callees in the signature table"""
    out = {k.arg: k.value for k in call.keywords if k.arg is not None}
    sig = _sig_of(call, SIGS)
    if sig is not None and not any(isinstance(a, ast.Starred) for a in call.args):
        for p_, a in zip(sig, call.args):
            out.setdefault(p_, a)
    return out


# ---------------------------------------------------------------------------------------------------------------------
# signature table + canonical call form
# ---------------------------------------------------------------------------------------------------------------------
SIGS: Dict[str, Tuple[List[str], str]] = {}
_FOREIGN_ATTRS: Optional[set] = None


def _foreign_attrs() -> set:
    """method names of library / builtin objects: an attribute call with such a name is never attributed to an hta function by name alone"""
    global _FOREIGN_ATTRS
    if _FOREIGN_ATTRS is None:
        names = set()
        for o in (dict, list, str, set, tuple, bytes, int, float):
            names |= set(dir(o))
        try:
            import pandas as _pd
            import numpy as _np
            for o in (_pd.DataFrame, _pd.Series, _pd.Index, _pd.core.groupby.DataFrameGroupBy, _np.ndarray):
                names |= set(dir(o))
        except Exception:          # the analysis itself needs neither library
            pass
        try:
            import networkx as _nx
            names |= set(dir(_nx.DiGraph))
        except Exception:
            pass
        names |= {"debug", "info", "warning", "error", "critical", "exception", "log"}
        _FOREIGN_ATTRS = names
    return _FOREIGN_ATTRS


def _signature_table(trees: List[ast.AST]) -> Dict[str, Tuple[List[str], str]]:
    """name -> (parameters without self/cls, kind) for functions, methods and classes (constructor) whose NAME is defined exactly once in hta.
    kind: 'function' | 'method' | 'classmethod' | 'staticmethod' | 'class'.  Only plain positional-or-keyword parameters."""
    seen: Dict[str, list] = {}

    def plain(a: ast.arguments) -> bool:
        return not a.vararg and not a.kwarg and not a.posonlyargs

    def visit(body, in_class):
        for st in body:
            if isinstance(st, (ast.FunctionDef, ast.AsyncFunctionDef)):
                decos = [ast.unparse(d) for d in st.decorator_list]
                params = [x.arg for x in st.args.args]
                kind = "function"
                if in_class:
                    kind = "staticmethod" if "staticmethod" in decos else "classmethod" if "classmethod" in decos else "method"
                    if kind != "staticmethod":
                        params = params[1:]
                seen.setdefault(st.name, []).append((params, kind) if plain(st.args) else None)
                visit(st.body, False)
            elif isinstance(st, ast.ClassDef):
                init = next((x for x in st.body if isinstance(x, ast.FunctionDef) and x.name == "__init__"), None)
                is_dc = any("dataclass" in ast.unparse(d) for d in st.decorator_list) or any(isinstance(b, ast.Name) and b.id == "NamedTuple" for b in st.bases)
                if init is not None:
                    seen.setdefault(st.name, []).append(([x.arg for x in init.args.args][1:], "class") if plain(init.args) else None)
                elif is_dc:
                    seen.setdefault(st.name, []).append(([x.target.id for x in st.body if isinstance(x, ast.AnnAssign) and isinstance(x.target, ast.Name)], "class"))
                else:
                    seen.setdefault(st.name, []).append(None)
                visit(st.body, True)
            else:
                for fld in ("body", "orelse", "finalbody"):
                    visit(getattr(st, fld, []) or [], in_class)
                for h_ in getattr(st, "handlers", []) or []:
                    visit(h_.body, in_class)
    for t in trees:
        visit(t.body, False)
    return {k: v[0] for k, v in seen.items() if len(v) == 1 and v[0] is not None and not (k.startswith("__") and k.endswith("__"))}


def _sig_of(call: ast.Call, sigs) -> Optional[List[str]]:
    f = call.func
    if isinstance(f, ast.Name):
        e = sigs.get(f.id)
        return e[0] if e is not None and e[1] in ("function", "class") else None
    if isinstance(f, ast.Attribute):
        e = sigs.get(f.attr)
        if e is None or e[1] == "function":
            return None
        if f.attr in _foreign_attrs():
            return None
        return e[0]
    return None


def _canonicalise_local_annotations(tree: ast.AST) -> int:
    """in place: `x: T = e` on a plain local name inside a function body becomes `x = e` (annotations of locals are never evaluated);
    class- and module-level annotated assignments (dataclass fields, constants) are left as they are"""
    n = 0

    def fix(body):
        nonlocal n
        for i, st in enumerate(body):
            if isinstance(st, ast.AnnAssign) and st.value is not None and isinstance(st.target, ast.Name):
                body[i] = ast.copy_location(ast.Assign(targets=[st.target], value=st.value), st)
                n += 1
            elif isinstance(st, ast.ClassDef):
                continue
            for fld in ("body", "orelse", "finalbody"):
                sub = getattr(body[i], fld, None)
                if isinstance(sub, list) and not isinstance(body[i], (ast.FunctionDef, ast.AsyncFunctionDef, ast.ClassDef)):
                    fix(sub)
            for h_ in getattr(body[i], "handlers", []) or []:
                fix(h_.body)
            if isinstance(body[i], ast.Match) if hasattr(ast, "Match") else False:
                for c_ in body[i].cases:
                    fix(c_.body)
    for f in ast.walk(tree):
        if isinstance(f, (ast.FunctionDef, ast.AsyncFunctionDef)):
            fix(f.body)
    return n


def _canonicalise_calls(tree: ast.AST, sigs) -> int:
    """in place: keywords that bind the next positional parameters of a table callee are moved into the positional list"""
    n = 0
    for c in ast.walk(tree):
        if not isinstance(c, ast.Call) or not c.keywords or any(isinstance(a, ast.Starred) for a in c.args) or any(k.arg is None for k in c.keywords):
            continue
        sig = _sig_of(c, sigs)
        if sig is None or len(c.args) > len(sig):
            continue
        moved = False
        while len(c.args) < len(sig):
            nxt = sig[len(c.args)]
            kw = next((k for k in c.keywords if k.arg == nxt), None)
            if kw is None:
                break
            c.args.append(kw.value)
            c.keywords.remove(kw)
            moved = True
        n += moved
    return n


def lit(node: Optional[ast.AST], default=None):
    if node is None:
        return default
    try:
        return ast.literal_eval(node)
    except Exception:
        return default
