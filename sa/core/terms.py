"""Term algebra for the column-term evaluator (E2) and the decision-table extractor (E3).

Terms are hashable nested tuples.  The constructors below put them in a normal form that
identifies the equivalences the checker *knows* (listed in DESIGN.md section 2, E2):
linear arithmetic, comparison orientation, boolean NNF (NaN-aware), operator/method synonymy.
"""
from __future__ import annotations

from fractions import Fraction
from typing import Any, Callable, Dict, Iterable, List, Optional, Tuple

Term = tuple

TRUE: Term = ("const", True)
FALSE: Term = ("const", False)
NONE: Term = ("const", None)


def C(v: Any) -> Term:
    if isinstance(v, float) and v == int(v) and abs(v) < 1e15:
        v = int(v)
    return ("const", v)


def P(name: str) -> Term:
    return ("param", name)


def col(base: Any, name: str) -> Term:
    return ("col", base, name)


def opaque(reason: str) -> Term:
    return ("opaque", reason)


def is_const(t: Term) -> bool:
    return isinstance(t, tuple) and len(t) == 2 and t[0] == "const"


def is_num_const(t: Term) -> bool:
    return is_const(t) and isinstance(t[1], (int, float, Fraction)) and not isinstance(t[1], bool)


def has_opaque(t: Any) -> bool:
    if isinstance(t, tuple):
        if t and t[0] == "opaque":
            return True
        return any(has_opaque(x) for x in t)
    if isinstance(t, (list, frozenset, set)):
        return any(has_opaque(x) for x in t)
    return False


def opaque_reasons(t: Any, out: Optional[List[str]] = None) -> List[str]:
    out = [] if out is None else out
    if isinstance(t, tuple):
        if t and t[0] == "opaque":
            out.append(str(t[1]))
        else:
            for x in t:
                opaque_reasons(x, out)
    elif isinstance(t, (list, frozenset, set)):
        for x in t:
            opaque_reasons(x, out)
    return out


def _key(t: Any) -> str:
    return repr(t)


# ----------------------------------------------------------------------------- linear arithmetic
def as_lin(t: Term) -> Tuple[Dict[Term, Any], Any]:
    if t[0] == "lin":
        return dict(t[1]), t[2]
    if is_num_const(t) or (is_const(t) and isinstance(t[1], bool)):
        return {}, int(t[1]) if isinstance(t[1], bool) else t[1]
    return {t: 1}, 0


def mk_lin(d: Dict[Term, Any], k: Any) -> Term:
    d = {a: c for a, c in d.items() if c != 0}
    if isinstance(k, Fraction) and k.denominator == 1:
        k = int(k)
    if not d:
        return C(k)
    if len(d) == 1 and k == 0:
        (a, c), = d.items()
        if c == 1:
            return a
    items = tuple(sorted(d.items(), key=lambda kv: _key(kv[0])))
    return ("lin", items, k)


def _is_listlike(t: Term) -> bool:
    return isinstance(t, tuple) and bool(t) and t[0] in ("list", "tolist", "tuple", "listcat") or (isinstance(t, tuple) and len(t) == 5 and t[0] == "comp" and t[1] == "list")


def add(a: Term, b: Term) -> Term:
    if _is_strlike(a) or _is_strlike(b):
        return ("strcat", a, b)
    if _is_listlike(a) and _is_listlike(b):
        return ("listcat", a, b)          # list concatenation keeps its order (not a commutative sum)
    da, ka = as_lin(a)
    db, kb = as_lin(b)
    for t, c in db.items():
        da[t] = da.get(t, 0) + c
    return mk_lin(da, ka + kb)


def neg(a: Term) -> Term:
    da, ka = as_lin(a)
    return mk_lin({t: -c for t, c in da.items()}, -ka)


def sub(a: Term, b: Term) -> Term:
    return add(a, neg(b))


def mul(a: Term, b: Term) -> Term:
    if is_num_const(b):
        a, b = b, a
    if is_num_const(a):
        db, kb = as_lin(b)
        return mk_lin({t: c * a[1] for t, c in db.items()}, kb * a[1])
    x, y = sorted((a, b), key=_key)
    return ("mul", x, y)


def div(a: Term, b: Term) -> Term:
    if is_num_const(b) and b[1] != 0 and is_num_const(a):
        return C(Fraction(a[1]) / Fraction(b[1]) if isinstance(a[1], int) and isinstance(b[1], int) else a[1] / b[1])
    if a == b:
        return ("div", a, b)
    return ("div", a, b)


def _is_strlike(t: Term) -> bool:
    return (is_const(t) and isinstance(t[1], str)) or (isinstance(t, tuple) and t and t[0] in ("strcat", "fstr"))


def _nonnumeric(t: Term) -> bool:
    return (is_const(t) and (isinstance(t[1], str) or t[1] is None)) or (isinstance(t, tuple) and t and t[0] in ("enum", "strcat", "fstr", "tuple"))


# ----------------------------------------------------------------------------- comparisons
_FLIP = {"<": ">", "<=": ">=", ">": "<", ">=": "<=", "==": "==", "!=": "!="}
_NEGATE = {"<": ">=", "<=": ">", ">": "<=", ">=": "<", "==": "!=", "!=": "=="}


def cmp(op: str, a: Term, b: Term) -> Term:
    """a op b, canonical: ('cmp', op, L) meaning L op 0 with the leading coefficient positive,
    or ('eq'|'ne', x, y) for non-numeric operands."""
    if op in ("is", "Is"):
        op = "=="
    if op in ("is not", "IsNot"):
        op = "!="
    if _nonnumeric(a) or _nonnumeric(b):
        if op in ("==", "!="):
            if is_const(a) and is_const(b):
                return C((a[1] == b[1]) if op == "==" else (a[1] != b[1]))
            if isinstance(a, tuple) and isinstance(b, tuple) and a and b and a[0] == "enum" and b[0] == "enum":
                return C((a == b) if op == "==" else (a != b))
            x, y = sorted((a, b), key=_key)
            return ("eq" if op == "==" else "ne", x, y)
        return ("cmpx", op, a, b)
    d, k = as_lin(sub(a, b))
    if not d:
        return C({"<": k < 0, "<=": k <= 0, ">": k > 0, ">=": k >= 0, "==": k == 0, "!=": k != 0}[op])
    items = sorted(d.items(), key=lambda kv: _key(kv[0]))
    if items[0][1] < 0:
        d = {t: -c for t, c in d.items()}
        k = -k
        op = _FLIP[op]
    return ("cmp", op, mk_lin(d, k))


def maybe_nan(t: Any) -> bool:
    """can this series term hold NaN on some row? (shifted values, outer/left-joined columns,
    divisions, mean/std, explicit markers)"""
    if isinstance(t, tuple):
        if t and t[0] == "win" and t[1] == "shift":
            return True
        if t and t[0] in ("div", "jcol_nullable", "nullable"):
            return True
        if t and t[0] == "opaque":
            return True
        return any(maybe_nan(x) for x in t)
    return False


def not_(t: Term) -> Term:
    if is_const(t):
        return C(not t[1])
    h = t[0]
    if h == "not":
        return t[1]
    if h == "and":
        return or_(*[not_(x) for x in t[1]])
    if h == "or":
        return and_(*[not_(x) for x in t[1]])
    if h == "eq":
        return ("ne", t[1], t[2])
    if h == "ne":
        return ("eq", t[1], t[2])
    if h == "cmp":
        if t[1] in ("==", "!="):
            return ("cmp", _NEGATE[t[1]], t[2])
        if not maybe_nan(t[2]):
            return ("cmp", _NEGATE[t[1]], t[2])
    return ("not", t)


def _flat(head: str, xs: Iterable[Term]) -> List[Term]:
    out: List[Term] = []
    for x in xs:
        if x[0] == head:
            out.extend(x[1])
        else:
            out.append(x)
    return out


def and_(*xs: Term) -> Term:
    ys = _flat("and", xs)
    if any(y == FALSE for y in ys):
        return FALSE
    ys = [y for y in ys if y != TRUE]
    uniq = sorted(set(ys), key=_key)
    for y in uniq:
        if not_(y) in uniq and not_(y)[0] != "not":
            return FALSE
    if not uniq:
        return TRUE
    if len(uniq) == 1:
        return uniq[0]
    return ("and", tuple(uniq))


def or_(*xs: Term) -> Term:
    ys = _flat("or", xs)
    if any(y == TRUE for y in ys):
        return TRUE
    ys = [y for y in ys if y != FALSE]
    uniq = sorted(set(ys), key=_key)
    if not uniq:
        return FALSE
    if len(uniq) == 1:
        return uniq[0]
    return ("or", tuple(uniq))


def isin(t: Term, members: Any) -> Term:
    """members: an iterable of terms (literal collection) or a single term (symbolic collection)"""
    if isinstance(members, tuple) and members and isinstance(members[0], str):
        # law: s.isin([x for x in s.unique() if P(x)]) == P(s)   (the values of the column that satisfy P, selected from the column's own distinct values)
        if len(members) == 5 and members[0] == "comp" and members[1] in ("list", "set") and isinstance(members[3], tuple) and members[3] and members[3][0] == "unique" \
                and members[3][1] == t and members[2] == ("elem", members[3]):
            return renorm(replace(members[4], {("elem", members[3]): t}))
        return ("in", t, members)  # symbolic collection term
    ms = tuple(sorted(set(members), key=_key))
    if len(ms) == 1:
        return cmp("==", t, ms[0])
    closed = lambda x: isinstance(x, tuple) and x and (x[0] == "enum" or (x[0] == "const" and isinstance(x[1], (str, int)) and not isinstance(x[1], bool)))
    if closed(t) and all(closed(m) for m in ms):
        return C(t in ms)
    return ("in", t, ("set", ms))


def max2(a: Term, b: Term) -> Term:
    """max(a, b) - commutative, canonical argument order (np.maximum, clip(lower=), builtin max, a if a > b else b)"""
    if a == b:
        return a
    if is_num_const(a) and is_num_const(b):
        return C(max(a[1], b[1]))
    x, y = sorted((a, b), key=_key)
    return ("clip_lo", x, y)


def min2(a: Term, b: Term) -> Term:
    if a == b:
        return a
    if is_num_const(a) and is_num_const(b):
        return C(min(a[1], b[1]))
    x, y = sorted((a, b), key=_key)
    return ("clip_hi", x, y)


def ite(c: Term, a: Term, b: Term) -> Term:
    if c == TRUE:
        return a
    if c == FALSE:
        return b
    if a == b:
        return a
    # canonical polarity of the condition: ite(not c, a, b) == ite(c, b, a); the negative comparison forms (<=, <, !=, ne) are the negated ones
    if isinstance(c, tuple) and c and (c[0] in ("not", "ne") or (c[0] == "cmp" and c[1] in ("<=", "<", "!="))):
        nc = not_(c)
        if not (isinstance(nc, tuple) and nc and nc[0] == "not"):
            c, a, b = nc, b, a
    # a if a > b else b  ==  max(a, b)   (and the three symmetric forms)
    if isinstance(c, tuple) and c and c[0] == "cmp" and c[1] in ("<", "<=", ">", ">=") and not maybe_nan(c):
        try:
            d = sub(a, b)
            if c[2] == d or c[2] == neg(d):
                gt = c[1] in (">", ">=")
                if c[2] == neg(d):
                    gt = not gt
                return max2(a, b) if gt else min2(a, b)
        except Exception:
            pass
    return ("ite", c, a, b)


def win(fn: str, params: tuple, t: Term, ctx: Any) -> Term:
    """order-dependent column operation (shift/cumsum/cummax/cummin) evaluated in frame context ctx"""
    # cummax(shift(x)) == shift(cummax(x)) for k = +1 ; keep shift outermost as canonical form
    if fn in ("cummax", "cummin", "cumsum") and t[0] == "win" and t[1] == "shift" and t[4] == ctx and fn != "cumsum":
        return ("win", "shift", t[2], ("win", fn, params, t[3], ctx), ctx)
    return ("win", fn, params, t, ctx)


def agg(fn: str, t: Term, ctx: Any, keys: tuple = ()) -> Term:
    """reduction of a column term over the rows of ctx (per group when keys are given).
    Known law: sum is linear, so sum(a*x + b*y + k) = a*sum(x) + b*sum(y) + k*count."""
    if fn == "sum" and isinstance(t, tuple) and t and t[0] == "lin":
        out = C(0)
        for a, c in t[1]:
            out = add(out, mul(C(c), ("agg", "sum", a, ctx, keys)))
        if t[2] != 0:
            out = add(out, mul(C(t[2]), ("agg", "count", ("rows",), ctx, keys)))
        return out
    return ("agg", fn, t, ctx, keys)


def call(fn: str, *args: Term) -> Term:
    return ("call", fn) + tuple(args)


# ----------------------------------------------------------------------------- utilities
def subterms(t: Any):
    if isinstance(t, tuple):
        yield t
        for x in t:
            yield from subterms(x)
    elif isinstance(t, (list, frozenset)):
        for x in t:
            yield from subterms(x)


def find(t: Any, pred: Callable[[tuple], bool]) -> List[tuple]:
    return [s for s in subterms(t) if isinstance(s, tuple) and s and isinstance(s[0], str) and pred(s)]


def bool_atoms(t: Any, out: Optional[List[tuple]] = None) -> List[tuple]:
    """atomic predicates of a value/boolean term: descends only through ite / and / or / not / cases"""
    out = [] if out is None else out
    if not isinstance(t, tuple) or not t:
        return out
    h = t[0]
    if h in ("and", "or"):
        for x in t[1]:
            bool_atoms(x, out)
    elif h == "not":
        bool_atoms(t[1], out)
    elif h == "ite":
        for x in t[1:]:
            bool_atoms(x, out)
    elif h == "cases":
        for c, v in t[1]:
            bool_atoms(c, out)
            bool_atoms(v, out)
    elif h in ("cmp", "eq", "ne", "in", "cmpx", "strmatch", "notnull", "truthy", "hascol", "dtypetest"):
        if t not in out:
            out.append(t)
    return out


def replace(t: Any, mapping: Dict[Any, Any]) -> Any:
    if isinstance(t, tuple) and t in mapping:
        return mapping[t]
    if isinstance(t, tuple):
        return tuple(replace(x, mapping) for x in t)
    return t


def renorm(t: Any) -> Any:
    """re-establish the normal form after a substitution (sorted children of and/or/cases/lin/set)"""
    if not isinstance(t, tuple) or not t:
        return t
    h = t[0]
    if h == "and":
        return and_(*[renorm(x) for x in t[1]])
    if h == "or":
        return or_(*[renorm(x) for x in t[1]])
    if h == "cases":
        return ("cases", tuple(sorted(((renorm(c), renorm(v)) for c, v in t[1]), key=repr)))
    if h == "lin":
        d: Dict[Term, Any] = {}
        for a, c in t[1]:
            a2 = renorm(a)
            d[a2] = d.get(a2, 0) + c
        return mk_lin(d, t[2])
    if h == "set":
        return ("set", tuple(sorted(set(renorm(x) for x in t[1]), key=_key)))
    if h == "not" and len(t) == 2:
        return not_(renorm(t[1]))
    if h == "ite" and len(t) == 4:
        return ite(renorm(t[1]), renorm(t[2]), renorm(t[3]))
    if h == "cmp" and len(t) == 3:
        return cmp(t[1], renorm(t[2]), C(0))
    if h in ("eq", "ne") and len(t) == 3:
        x, y = sorted((renorm(t[1]), renorm(t[2])), key=_key)
        if is_const(x) and is_const(y):          # two known values: decided
            return (TRUE if x[1] == y[1] else FALSE) if h == "eq" else (FALSE if x[1] == y[1] else TRUE)
        return (h, x, y)
    return tuple(renorm(x) for x in t)


def strip_casts(t: Any, only_full_width: bool = True) -> Any:
    """the term without its value-preserving dtype casts (astype to float64, or to int64 of an integer-valued term, keeps every value; with only_full_width=False every cast is removed - for questions such as
    null-ness that no cast changes); re-normalised"""
    FULL = {"int64", "float64", "int", "float", "np.int64", "np.float64", "numpy.int64", "numpy.float64", "builtins.int", "builtins.float", "Int64"}

    def full(ty):
        name = ty[1] if isinstance(ty, tuple) and len(ty) == 2 and ty[0] in ("const", "ext") else None
        return isinstance(name, str) and name in FULL

    def integral(x):
        """the term is integer-valued whatever its dtype (a cast to int64 then truncates nothing)"""
        if isinstance(x, tuple) and x:
            if x[0] in ("ceil", "floor", "round") and len(x) == 2:
                return True
            if x[0] == "astype" and len(x) == 3:
                return integral(x[2]) or (isinstance(x[1], tuple) and len(x[1]) == 2 and "int" in str(x[1][1]).lower())
            if x[0] == "lin":
                return all(integral(a_) and isinstance(c_, int) for a_, c_ in x[1]) and isinstance(x[2], int)
            if x[0] == "const":
                return isinstance(x[1], int)
        return False

    def is_int_type(ty):
        return "int" in str(ty[1]).lower() if isinstance(ty, tuple) and len(ty) == 2 else False

    def go(x):
        if isinstance(x, tuple):
            if len(x) == 3 and x[0] == "astype" and (not only_full_width or (full(x[1]) and (not is_int_type(x[1]) or integral(x[2])))):
                return go(x[2])          # (a cast of a possibly fractional term to an integer type TRUNCATES: it stays)
            return tuple(go(y) for y in x)
        return x
    return renorm(go(t))


def melt_pieces(t: Any):
    """law: F.melt(id_vars=I, value_vars=[v1..vn]) is the concatenation, in this order, of n copies of F's rows - copy k carries the label vk in the variable
    column, F[vk] in the value column and F's own id columns.  A term over ONE such melted frame therefore splits into n terms over F's rows:
    [(label, term_k)] with the melted columns replaced by what they are in copy k; None when t reads no (or more than one) melted frame with known value columns"""
    bases = []
    for s in subterms(t):
        if isinstance(s, tuple) and s and s[0] in ("win", "agg"):
            return None          # a window / aggregate over the melted rows is not row-wise: it does not split
        if isinstance(s, tuple) and len(s) >= 2 and s[0] in ("meltvar", "meltval", "meltid") and isinstance(s[1], tuple) and s[1] and s[1][0] == "melt" and s[1] not in bases:
            bases.append(s[1])
    if len(bases) != 1 or bases[0][3] is None or len(bases[0][3]) < 1:
        return None
    base = bases[0]

    def sub_(x, lab, val):
        if not isinstance(x, tuple) or not x:
            return x
        if x == ("meltvar", base):
            return C(lab)
        if x == ("meltval", base):
            return val
        if len(x) == 3 and x[0] == "meltid" and x[1] == base:
            return x[2]
        return tuple(sub_(y, lab, val) for y in x)
    return [(lab, renorm(sub_(t, lab, val))) for lab, val in base[3]]


def show(t: Any, depth: int = 0) -> str:
    """compact human-readable rendering used in reports and evidence"""
    if not isinstance(t, tuple) or not t:
        return repr(t)
    h = t[0]
    if depth > 14:
        return "..."
    s = lambda x: show(x, depth + 1)
    if not isinstance(h, str):
        if len(t) == 3 and isinstance(t[1], tuple) and (t[2] is None or isinstance(t[2], tuple)):
            return "@" + _ctx(t)
        return "(" + ", ".join(s(x) if isinstance(x, tuple) else repr(x) for x in t) + ")"
    if h == "const":
        return repr(t[1])
    if h == "param":
        return f"${t[1]}" if len(t) == 2 else f"${t[1]}[{show(t[2], depth + 1)}]"
    if h == "col":
        return f"{_base(t[1])}.{t[2]}"
    if h == "lin":
        parts = []
        for a, c in t[1]:
            sa = s(a)
            if c == 1:
                parts.append(f"+ {sa}")
            elif c == -1:
                parts.append(f"- {sa}")
            else:
                parts.append(f"+ {c}*{sa}")
        if t[2] != 0:
            parts.append(f"+ {t[2]}")
        r = " ".join(parts)
        return "(" + (r[2:] if r.startswith("+ ") else r) + ")"
    if h == "cmp":
        return f"[{s(t[2])} {t[1]} 0]"
    if h in ("eq", "ne"):
        return f"[{s(t[1])} {'==' if h == 'eq' else '!='} {s(t[2])}]"
    if h == "and":
        return "(" + " & ".join(s(x) for x in t[1]) + ")"
    if h == "or":
        return "(" + " | ".join(s(x) for x in t[1]) + ")"
    if h == "not":
        return f"~{s(t[1])}"
    if h == "in":
        return f"[{s(t[1])} in {s(t[2])}]"
    if h == "set":
        return "{" + ", ".join(s(x) for x in t[1]) + "}"
    if h == "ite":
        return f"ite({s(t[1])}, {s(t[2])}, {s(t[3])})"
    if h == "win":
        p = ",".join(str(x) for x in t[2])
        return f"{t[1]}{'<' + p + '>' if p else ''}({s(t[3])} @{_ctx(t[4])})"
    if h == "agg":
        k = ("by " + ",".join(s(x) for x in t[4])) if t[4] else ""
        return f"{t[1]}[{s(t[2])} @{_ctx(t[3])} {k}]"
    if h == "opaque":
        return f"OPAQUE<{t[1]}>"
    if h == "enum":
        return f"{t[1]}.{t[2]}"
    if h == "attr":
        return f"{s(t[1])}.{t[2]}"
    if h == "call":
        return f"{t[1]}(" + ", ".join(s(x) for x in t[2:]) + ")"
    return h + "(" + ", ".join(s(x) if isinstance(x, tuple) else repr(x) for x in t[1:]) + ")"


def _base(b: Any) -> str:
    if isinstance(b, tuple) and b and b[0] == "param":
        return b[1] if len(b) == 2 else f"{b[1]}[{show(b[2], 8)}]"
    if isinstance(b, tuple) and b and isinstance(b[0], str):
        return b[0].upper() + "#" + str(abs(hash(b)) % 997)
    return str(b)


def _ctx(c: Any) -> str:
    if not isinstance(c, tuple) or len(c) != 3:
        return str(c)
    base, rows, order = c
    r = "" if rows == TRUE else "|" + show(rows, 8)
    o = "" if order is None else "^" + show_order(order)
    return f"{_base(base)}{r}{o}"


def show_order(o: Any) -> str:
    if o is None:
        return "-"
    if isinstance(o, tuple) and o and o[0] == "sort":
        by = ",".join(show(x, 6) for x in o[1])
        return f"sort({by};asc={o[2]};{o[3]})"
    return str(o)


# ----------------------------------------------------------------------------- evaluation on representatives
class Unknown(Exception):
    pass


def evaluate(t: Term, leaf: Callable[[Term], Any]) -> Any:
    """evaluate a scalar / boolean term on concrete representatives; `leaf` maps non-interpreted
    leaves (col/param/attr/...) to Python values or raises Unknown."""
    h = t[0]
    if h == "const":
        return t[1]
    if h == "lin":
        return sum(c * evaluate(a, leaf) for a, c in t[1]) + t[2]
    if h == "cmp":
        v = evaluate(t[2], leaf)
        return {"<": v < 0, "<=": v <= 0, ">": v > 0, ">=": v >= 0, "==": v == 0, "!=": v != 0}[t[1]]
    if h == "eq":
        return evaluate(t[1], leaf) == evaluate(t[2], leaf)
    if h == "ne":
        return evaluate(t[1], leaf) != evaluate(t[2], leaf)
    if h == "and":
        return all(evaluate(x, leaf) for x in t[1])
    if h == "or":
        return any(evaluate(x, leaf) for x in t[1])
    if h == "truthy" and len(t) == 2:
        try:
            return leaf(t)          # a rule may give the test a value of its own (e.g. 'is a communication kernel')
        except Unknown:
            v_ = evaluate(t[1], leaf)
            return bool(v_) if isinstance(v_, (int, float, str, bool)) or v_ is None else (_ for _ in ()).throw(Unknown(t))
    if h == "not":
        return not evaluate(t[1], leaf)
    if h == "ite":
        return evaluate(t[2], leaf) if evaluate(t[1], leaf) else evaluate(t[3], leaf)
    if h == "in":
        v = evaluate(t[1], leaf)
        if t[2][0] == "set":
            return any(v == evaluate(m, leaf) for m in t[2][1])
        return leaf(t)
    if h == "mul":
        return evaluate(t[1], leaf) * evaluate(t[2], leaf)
    return leaf(t)


def ite_to_cases(t: Any):
    """a nested ite whose leaves are constants, flattened into ('cases', rows) with rows (conjunction of the branch conditions, leaf), sorted - the form call_merged
    gives to an if/elif/else ladder of returns; None when t is not such a tree"""
    rows = []

    def walk(x, conds):
        if isinstance(x, tuple) and len(x) == 4 and x[0] == "ite":
            walk(x[2], conds + [x[1]])
            walk(x[3], conds + [not_(x[1])])
        elif is_const(x):
            rows.append((and_(*conds) if conds else TRUE, x))
        else:
            raise ValueError
    try:
        walk(t, [])
    except ValueError:
        return None
    if len(rows) < 2:
        return None
    return ("cases", tuple(sorted(rows, key=repr)))


def as_cases(t: Any):
    """[(condition, value), ...] for a ('cases', ...) term or a two-way ('ite', c, a, b) term; None otherwise"""
    if isinstance(t, tuple) and t and t[0] == "cases":
        return list(t[1])
    if isinstance(t, tuple) and len(t) == 4 and t[0] == "ite":
        return [(t[1], t[2]), (not_(t[1]), t[3])]
    return None


def boolnorm(t: Any) -> Any:
    """push a test into a case split whose values are all constants:
         truthy(cases((c_i, v_i)))        -> OR of the c_i with truthy v_i
         cases((c_i, v_i)) == k / != k    -> OR of the c_i with v_i == k  (negated for !=)
       (a comparison evaluated inside each branch and one evaluated on the merged value are the same predicate)"""
    if not isinstance(t, tuple) or not t:
        return t
    t = tuple(boolnorm(x) for x in t)

    def consts(items):
        return all(is_const(v) for _, v in items)
    if t[0] == "truthy" and len(t) == 2 and as_cases(t[1]) is not None and consts(as_cases(t[1])):
        return or_(*[c for c, v in as_cases(t[1]) if v[1]]) if any(v[1] for _, v in as_cases(t[1])) else FALSE
    if t[0] == "truthy" and len(t) == 2 and isinstance(t[1], tuple) and t[1] and (t[1][0] in ("cmp", "eq", "ne", "and", "or", "not", "in", "notnull") or t[1] in (TRUE, FALSE)):
        return t[1]
    if t[0] in ("eq", "ne") and len(t) == 3:
        a, b = t[1], t[2]
        if is_const(b) and as_cases(a) is not None:
            a, b = b, a
        if is_const(a) and as_cases(b) is not None and consts(as_cases(b)):
            hit = [c for c, v in as_cases(b) if v == a]
            r = or_(*hit) if hit else FALSE
            return r if t[0] == "eq" else not_(r)
    if as_cases(t) is not None and consts(as_cases(t)) and all(isinstance(v[1], bool) for _, v in as_cases(t)):
        hit = [c for c, v in as_cases(t) if v[1]]
        return or_(*hit) if hit else FALSE
    return t
