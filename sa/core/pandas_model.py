"""Dispatch layer of the evaluator: attribute access, subscripts, operators, calls."""
from __future__ import annotations

import ast
from typing import Any, Dict, List, Optional

from . import terms as T
from . import progdb as _progdb
from .progdb import _sig_of, AnalysisError, call_name
from .values import (Columns, DefaultDict, ClassRef, Each, EnumRef, ExtMod, Frame, FuncRef, GenCall, GroupBy, Obj, PyTuple, ReMatch, Ser, to_term)

_CMP = {"Lt": "<", "LtE": "<=", "Gt": ">", "GtE": ">=", "Eq": "==", "NotEq": "!=", "Is": "==", "IsNot": "!="}
_CMP_METH = {"lt": "<", "le": "<=", "gt": ">", "ge": ">=", "eq": "==", "ne": "!="}
MUTATING_LIST = {"append", "extend", "insert", "pop", "remove", "clear", "sort", "reverse", "update", "setdefault", "add", "discard", "popitem"}
IGNORED_CALL_PREFIX = ("logger.", "logging.", "print", "fig.", "warnings.", "time.", "tracemalloc.")


class Model:
    def __init__(self, interp):
        self.I = interp
        from . import pandas_ops
        self.ops = pandas_ops.Ops(self)

    # ------------------------------------------------------------------ helpers
    def log(self, kind_, node=None, **kw):
        self.I.log(kind_, node, **kw)

    def mutating(self, frame: Frame, node, what: str, **kw) -> None:
        self.log("frame-mutation", node, obj=frame.obj, base=frame.base, what=what, **kw)

    def ser_of(self, frame: Frame, name: str) -> Ser:
        return Ser(frame.col(name), frame.ctx(), frame, name)

    def as_ser_term(self, v: Any) -> T.Term:
        return v.term if isinstance(v, Ser) else to_term(v)

    def iter_element(self, it: Any, it_t: T.Term) -> Any:
        if isinstance(it, list) and len(it) == 1 and isinstance(it[0], Each):
            return it[0].value
        if isinstance(it, GroupBy):
            f = it.frame
            kts = tuple(f.col(k) for k in it.keys)
            gk = tuple(("gbkey", kt) for kt in kts)
            g = f.derive(rows=T.and_(f.rows, *[T.cmp("==", kt, k) for kt, k in zip(kts, gk)]))
            self.log("groupby-iter", None, keys=list(it.keys), key_terms=kts, src_ctx=f.ctx(), dst=g.obj)
            return PyTuple([gk[0] if len(gk) == 1 else PyTuple(list(gk)), g])
        if hasattr(it, "row_frame"):
            row = Obj("row", attrs={"__row_of__": ("row",), "__frame__": it.row_frame})
            if getattr(it, "pairs", False):
                return PyTuple([("at", ("row",), self.ops.index_term(it.row_frame)), row])
            return row
        if isinstance(it, tuple) and it and it[0] == "dict_items":
            return PyTuple([("key", it[1]), ("value", it[1])])
        if isinstance(it, tuple) and it and it[0] == "enumerate":
            return PyTuple([("pos", it[1]), ("elem", it[1])])
        if isinstance(it, tuple) and it and it[0] == "zip":
            comps = it[1]
            # law: zip(df[a].tolist(), df[b].tolist(), ...) over the SAME rows walks the rows of df: each component is that row's value of the column
            if comps and all(isinstance(x, tuple) and len(x) == 3 and x[0] == "tolist" for x in comps) and len({x[2] for x in comps}) == 1:
                self.log("row-walk", None, ctx=comps[0][2], columns=tuple(x[1] for x in comps))          # (which rows are walked: for rules that need the selection)
                return PyTuple([("at", ("row",), x[1]) for x in comps])
            return PyTuple([("elem", x) for x in comps])
        # law: iterating [f(y) for y in L] yields f(y) for the elements y of L (same order)
        if isinstance(it, tuple) and len(it) == 5 and it[0] == "comp" and it[1] == "list" and it[4] == T.TRUE:
            body = it[2]
            if isinstance(body, tuple) and body and body[0] == "tuple" and len(body) == 2 and isinstance(body[1], tuple):
                return PyTuple(list(body[1]))
            return body
        # "some element": the abstraction of a symbolic loop forgets the order of the walk, so an element of X[::-1] / reversed(X) is an element of X
        if isinstance(it_t, tuple) and len(it_t) == 3 and it_t[0] == "getitem" and it_t[2] == ("slice", (None, None, -1)):
            self.log("reversed-walk", None, seq=it_t[1])
            return ("elem", it_t[1])
        if isinstance(it_t, tuple) and len(it_t) == 2 and it_t[0] == "reversed":
            self.log("reversed-walk", None, seq=it_t[1])
            return ("elem", it_t[1])
        return ("elem", it_t)

    def unpack_item(self, v: Any, base: T.Term, i: int, n: int) -> Any:
        if isinstance(base, tuple) and base and base[0] == "elem" and isinstance(base[1], tuple) and base[1] and base[1][0] == "zip":
            return ("elem", base[1][1][i]) if i < len(base[1][1]) else T.opaque("unpack")
        if isinstance(base, tuple) and base and base[0] == "tolist":
            return ("getitem", base, T.C(i))          # a, b = s.tolist(): the elements by position
        if isinstance(base, tuple) and len(base) == 2 and base[0] == "elem" and isinstance(base[1], tuple) and base[1] and base[1][0] == "to_numpy":
            return ("getitem", base, T.C(i))          # for a, b in frame.to_numpy(): the fields of a row by position (the form row[i] gives)
        return ("item", base, i)

    # ------------------------------------------------------------------ attribute access
    def getattr(self, v: Any, attr: str, node) -> Any:
        I = self.I
        if isinstance(v, Frame):
            if attr in ("loc", "iloc", "at", "iat"):
                return ("indexer", attr, v)
            if attr == "columns":
                return Columns(v)
            if attr == "index":
                return Ser(self.ops.index_term(v), v.ctx(), v, "__index__")
            if attr == "shape":
                return PyTuple([("nrows", v.ctx()), ("ncols", v.ctx())])
            if attr == "empty":
                return T.cmp("==", ("nrows", v.ctx()), T.C(0))
            if attr == "values" and v.colnames() is not None:
                return self.ops.f_to_numpy(v, [], {}, None)          # frame.values is frame.to_numpy(): the rows as an array (known columns, in order)
            if attr in ("dtypes", "values", "T", "str", "size"):
                return ("frameattr", attr, v)
            if attr in self.ops.FRAME_METHODS:
                return ("method", v, attr)
            return self.ser_of(v, attr)
        if isinstance(v, Ser):
            if attr in ("values", "array"):
                return Ser(v.term, v.ctx, v.frame, v.name, positional=True)
            if attr == "str":
                return ("straccessor", v)
            if attr in ("loc", "iloc", "at"):
                return ("indexer", attr, v)
            if attr == "index":
                return Ser(self.ops.index_term(v.frame) if v.frame is not None else ("index", v.ctx), v.ctx, v.frame, "__index__")
            if attr == "dtype":
                return ("dtype", v.term)
            if attr in ("empty",):
                return T.cmp("==", ("nrows", v.ctx), T.C(0))
            if attr == "name" and isinstance(v.name, str):
                return v.name
            return ("method", v, attr)
        if isinstance(v, Columns):
            if attr in ("values", "array"):
                return v
            return ("method", v, attr)
        if isinstance(v, GroupBy):
            if attr in self.ops.GB_METHODS:
                return ("method", v, attr)
            return GroupBy(v.frame, v.keys, v.as_index, attr, v.sort)
        if isinstance(v, Obj):
            if attr in v.attrs:
                return v.attrs[attr]
            if "__fields__" in v.attrs and attr in ("_asdict", "_fields"):
                # a NamedTuple instance: its fields in declaration order
                if attr == "_fields":
                    return PyTuple(list(v.attrs["__fields__"]))
                return ("ntasdict", v)
            if "__frame__" in v.attrs:
                return ("at", v.attrs["__row_of__"], v.attrs["__frame__"].col(attr))
            if "__row_of__" in v.attrs:
                return ("rowattr", v.attrs["__row_of__"], attr)
            if v.cls is not None:
                m = I.find_method(v.cls, attr)
                if m is not None:
                    deco = [ast.unparse(d) for d in m.node.decorator_list]
                    bound = None if any(d == "staticmethod" for d in deco) else v
                    fr = FuncRef(m.mod, m.node, m.qualname, bound_self=bound)
                    if any(d in ("property", "cached_property") for d in deco):
                        return self.invoke(fr, [], {}, node)
                    return fr
                # class-level constant
                mod, cq = v.cls
                for st in mod.classes[cq].body if cq in mod.classes else []:
                    if isinstance(st, ast.Assign) and any(isinstance(t, ast.Name) and t.id == attr for t in st.targets):
                        return I.eval(st.value)
                    if isinstance(st, ast.AnnAssign) and isinstance(st.target, ast.Name) and st.target.id == attr and st.value is not None:
                        return I.eval(st.value)
            return ("attr", v.term(), attr)
        if isinstance(v, ClassRef):
            m = I.find_method((v.mod, v.qualname), attr)
            if m is not None:
                deco = [ast.unparse(d) for d in m.node.decorator_list]
                if any(d == "classmethod" for d in deco):
                    return FuncRef(m.mod, m.node, m.qualname, bound_self=Obj("cls", cls=(v.mod, v.qualname)))
                return FuncRef(m.mod, m.node, m.qualname)
            for st in v.mod.classes[v.qualname].body:
                if isinstance(st, ast.Assign) and any(isinstance(t, ast.Name) and t.id == attr for t in st.targets):
                    return I.eval(st.value)
                if isinstance(st, ast.AnnAssign) and isinstance(st.target, ast.Name) and st.target.id == attr and st.value is not None:
                    return I.eval(st.value)
            return ("attr", ("class", v.qualname), attr)
        if isinstance(v, EnumRef):
            if attr in v.members:
                return ("enum", v.qualname, attr)
            if attr == "__members__":
                return {k: ("enum", v.qualname, k) for k in v.members}
            return ("attr", ("class", v.qualname), attr)
        if isinstance(v, ReMatch):
            return ("rematch_method", v, attr)
        if isinstance(v, tuple) and len(v) == 4 and v[0] == "ite" and all(isinstance(x, tuple) and x and x[0] in ("enum", "ite") for x in v[2:4]):
            # an attribute of a conditional value whose branches are enum members: the conditional of the attributes
            return T.ite(v[1], to_term(self.getattr(v[2], attr, node)), to_term(self.getattr(v[3], attr, node)))
        if isinstance(v, tuple) and v and v[0] == "enum":
            members = self._enum_members(v[1])
            if attr == "name":
                return v[2]
            if attr == "value" and members is not None and v[2] in members:
                return members[v[2]]
            return ("attr", v, attr)
        if isinstance(v, tuple) and v and v[0] == "hta_module":
            return I.module_name(I.db.mod(v[1]), attr)
        if isinstance(v, ExtMod):
            return ExtMod(f"{v.name}.{attr}")
        if isinstance(v, PyTuple):
            return ("method", v, attr)
        if isinstance(v, (list, dict, set, str)):
            return ("method", v, attr)
        if isinstance(v, tuple) and v and v[0] == "straccessor":
            return ("method", v, attr)
        if isinstance(v, tuple) and v and v[0] in ("set", "frozenset", "list", "unique", "tolist", "sorted", "setop") and attr in (
                "union", "intersection", "difference", "issubset", "issuperset", "copy", "index", "count"):
            return ("method", v, attr)
        t = to_term(v)
        return ("attr", t, attr)

    def _enum_members(self, q: str) -> Optional[dict]:
        for m in self.I.db.modules.values():
            if q in m.classes:
                return m.enum_members(q)
        return None

    def frame_set_attr(self, f: Frame, attr: str, v: Any, node) -> None:
        if attr == "columns" and isinstance(v, list) and all(isinstance(x, str) for x in v) and f.colnames() is not None and len(v) == len(f.colnames()):
            old = f.colnames()
            self.mutating(f, node, "set-columns", mapping=dict(zip(old, v)))
            terms = [f.col(c) for c in old]
            f.cols = {}
            f.dropped = set()
            f.known = []
            f.resolver = None
            for n, t in zip(v, terms):
                f.setcol(n, t)
            return
        if attr == "columns":
            self.mutating(f, node, "set-columns")
            f.cols = {k: T.opaque("columns reassigned") for k in f.cols}
            f.resolver = lambda name: T.opaque("columns reassigned")
            return
        if attr == "index":
            self.mutating(f, node, "set-index-attr")
            f.index = self.as_ser_term(v)
            return
        self.ops.set_column(f, attr, v, node)

    # ------------------------------------------------------------------ subscripts
    def getitem(self, v: Any, key: Any, node) -> Any:
        if isinstance(v, Frame):
            return self.ops.frame_getitem(v, key, node)
        if isinstance(v, tuple) and len(v) == 3 and v[0] == "serdict":
            return ("at", ("loc", v[2], to_term(key)), v[1])          # s.to_dict()[k] == s.loc[k] (unique labels: one value per label, the last one otherwise)
        if isinstance(v, GroupBy):
            return GroupBy(v.frame, v.keys, v.as_index, key, v.sort)
        if isinstance(v, tuple) and v and v[0] == "indexer":
            return self.ops.indexer_get(v[1], v[2], key, node)
        if isinstance(v, Ser):
            return self.ops.series_getitem(v, key, node)
        if isinstance(v, dict):
            k = self.I._hashable(key)
            if k in v:
                return v[k]
            if ("each", to_term(key)) in v:
                return v[("each", to_term(key))]
            if isinstance(v, DefaultDict) and v.make() is not None:
                v[k] = v.make()
                return v[k]
            if isinstance(v, DefaultDict) and getattr(v, "factory_fn", None) is not None:
                v[k] = self.invoke(v.factory_fn, [], {}, node)
                return v[k]
            return ("getitem", to_term(v), to_term(key))
        if isinstance(v, (list, PyTuple)):
            items = v if isinstance(v, list) else v.items
            if isinstance(key, int) and -len(items) <= key < len(items) and not any(isinstance(x, Each) for x in items):
                return items[key]
            if isinstance(key, tuple) and key and key[0] == "slice" and all(x is None or isinstance(x, int) for x in key[1]) \
                    and not any(isinstance(x, Each) for x in items):
                r = items[slice(*key[1])]
                return r if isinstance(v, list) else PyTuple(r)
            return ("getitem", to_term(v), to_term(key))
        if isinstance(v, str) and isinstance(key, int):
            return v[key]
        if isinstance(v, str) and isinstance(key, tuple) and key[0] == "slice":
            return v[slice(*key[1])]
        if isinstance(v, Obj) and "__frame__" in v.attrs and isinstance(key, str):
            return ("at", v.attrs["__row_of__"], v.attrs["__frame__"].col(key))
        if isinstance(v, Obj) and "__row_of__" in v.attrs and isinstance(key, str):
            return ("rowattr", v.attrs["__row_of__"], key)
        # law: [f(x) for x in L][i] == f(L[i])   (an unfiltered list comprehension indexed by position)
        if isinstance(v, tuple) and len(v) == 5 and v[0] == "comp" and v[1] == "list" and v[4] == T.TRUE and not isinstance(key, (str,)):
            it, body = v[3], v[2]
            return T.renorm(T.replace(body, {("elem", it): ("getitem", it, to_term(key))}))
        return ("getitem", to_term(v), to_term(key))

    def setitem(self, obj: Any, target: ast.Subscript, v: Any, node) -> None:
        if isinstance(target.slice, ast.Slice):
            key = ("slice",)
        else:
            key = self.I.eval(target.slice)
        if isinstance(obj, Frame):
            self.ops.frame_setitem(obj, key, v, node)
        elif isinstance(obj, tuple) and obj and obj[0] == "indexer":
            self.ops.indexer_set(obj[1], obj[2], key, v, node)
        elif isinstance(obj, dict):
            self.log("dict-store", node, key=to_term(key), value=to_term(v), target=ast.unparse(target.value))
            if self.I.run.loop_depth > 0 and not isinstance(key, (str, int)):
                obj[("each", to_term(key))] = v
            else:
                obj[self.I._hashable(key)] = v
        elif isinstance(obj, list):
            self.log("list-store", node, key=to_term(key), value=to_term(v), target=ast.unparse(target.value))
            if isinstance(key, int) and -len(obj) <= key < len(obj):
                obj[key] = v
        else:
            self.log("subscript-store", node, target=ast.unparse(target.value), key=to_term(key), value=to_term(v), obj=to_term(obj))

    # ------------------------------------------------------------------ operators
    def binop(self, op: str, a: Any, b: Any, node) -> Any:
        # frame (op) scalar: the operation applied to every column
        fr = a if isinstance(a, Frame) else b if isinstance(b, Frame) else None
        other = b if fr is a else a
        if fr is not None and not isinstance(other, (Frame, Ser, list, dict)) and op in ("Add", "Sub", "Mult", "Div"):
            ot = to_term(other)
            left = fr is a
            fn = {"Add": lambda t: T.add(t, ot), "Sub": (lambda t: T.sub(t, ot)) if left else (lambda t: T.sub(ot, t)), "Mult": lambda t: T.mul(t, ot),
                  "Div": (lambda t: T.div(t, ot)) if left else (lambda t: T.div(ot, t))}[op]
            return self.ops._wrap_all(fr, fn, node, f"frame {op} scalar")
        ser = next((x for x in (a, b) if isinstance(x, Ser)), None)
        ta, tb = self.as_ser_term(a), self.as_ser_term(b)
        if op == "Add":
            r = T.add(ta, tb)
        elif op == "Sub":
            r = T.sub(ta, tb)
        elif op == "Mult":
            r = T.mul(ta, tb)
        elif op == "Div":
            r = T.div(ta, tb)
        elif op == "BitAnd":
            r = T.and_(ta, tb) if self._boolish(ta) and self._boolish(tb) else ("bitand",) + tuple(sorted((ta, tb), key=repr))
        elif op == "BitOr":
            r = T.or_(ta, tb) if self._boolish(ta) and self._boolish(tb) else ("bitor",) + tuple(sorted((ta, tb), key=repr))
        elif op == "LShift":
            r = ("lshift", ta, tb)
        elif op == "Mod" and isinstance(a, str):
            r = ("strfmt", ta, tb)
        else:
            r = ("binop", op, ta, tb)
        if ser is not None:
            other = b if ser is a else a
            if isinstance(other, Ser) and other.ctx != ser.ctx and not (other.positional or ser.positional):
                self.log("align", node, left=ser.ctx, right=other.ctx)
            return Ser(r, ser.ctx, ser.frame, None, ser.positional)
        return r

    def _boolish(self, t: T.Term) -> bool:
        if isinstance(t, tuple) and t and t[0] == "ccol" and len(t) == 3 and isinstance(t[2], tuple) and t[2]:
            return all(self._boolish(x) for x in t[2])           # a concatenated column whose every part is boolean
        return isinstance(t, tuple) and t and (t[0] in ("cmp", "eq", "ne", "and", "or", "not", "in", "cmpx", "isnull", "strmatch", "truthy", "notnull", "duplicated")
                                               or (t[0] == "const" and isinstance(t[1], bool)))

    def compare(self, op: str, a: Any, b: Any, node) -> Any:
        if op in ("In", "NotIn"):
            r = self.contains(b, a, node)
            return T.not_(r) if op == "NotIn" else r
        if isinstance(a, (int, float, str)) and isinstance(b, (int, float, str)) and type(a) == type(b):
            return {"<": a < b, "<=": a <= b, ">": a > b, ">=": a >= b, "==": a == b, "!=": a != b}[_CMP[op]]
        if isinstance(a, (list, dict, set)) and isinstance(b, (list, dict, set)) and op in ("Eq", "NotEq") and not a and not b:
            return op == "Eq"
        if isinstance(a, (list, dict, set)) and isinstance(b, (list, dict, set)) and op in ("Eq", "NotEq") and (not a) != (not b):
            return op == "NotEq"
        prim_list = lambda x: isinstance(x, list) and all((isinstance(y, (int, float, str)) or y is None) for y in x)
        if prim_list(a) and prim_list(b) and op in ("Eq", "NotEq"):
            return (a == b) if op == "Eq" else (a != b)          # two lists of known plain values
        prim_tuple = lambda x: isinstance(x, PyTuple) and all((isinstance(y, (int, float, str, bool)) or y is None) for y in x.items)
        if prim_tuple(a) and prim_tuple(b) and op in ("Eq", "NotEq"):
            return (list(a.items) == list(b.items)) if op == "Eq" else (list(a.items) != list(b.items))          # two tuples of known plain values
        if op in ("Is", "IsNot") and (a is None or b is None) and (isinstance(a, Ser) or isinstance(b, Ser)):
            return op == "IsNot"          # identity: a Series object is never None (== None would be element-wise)
        if (a is None or b is None) and not isinstance(a, Ser) and not isinstance(b, Ser):
            other = b if a is None else a
            if other is None:
                return op in ("Eq", "Is")
            if isinstance(other, (Frame, Obj, FuncRef, list, dict, str, int, float, PyTuple)):
                return op in ("NotEq", "IsNot")
        ser = next((x for x in (a, b) if isinstance(x, Ser)), None)
        r = T.cmp(_CMP[op], self.as_ser_term(a), self.as_ser_term(b))
        if ser is not None:
            return Ser(r, ser.ctx, ser.frame, None, ser.positional)
        return r

    def contains(self, container: Any, item: Any, node) -> T.Term:
        if isinstance(container, Columns) and isinstance(item, str):
            h = container.frame.has(item)
            if h is not None:
                return T.C(h)
            return ("hascol", container.frame.base, item)
        if isinstance(container, tuple) and container and container[0] in ("set", "list") and len(container) == 2 and isinstance(container[1], tuple) \
                and container[1] and container[1][0] == "columns" and isinstance(item, str):
            cols = container[1]
            if cols[2] is not None:
                return T.C(item in cols[2])
            return ("hascol", cols[1], item)
        if isinstance(container, Frame) and isinstance(item, str):
            h = container.has(item)
            return T.C(h) if h is not None else ("hascol", container.base, item)
        if isinstance(container, (list, set, frozenset, PyTuple)) :
            items = container.items if isinstance(container, PyTuple) else container
            if not any(isinstance(x, Each) for x in items):
                if isinstance(item, (str, int)) and all(isinstance(x, (str, int)) for x in items):
                    return T.C(item in items)
                return T.isin(to_term(item), [to_term(x) for x in items])
        if isinstance(container, dict):
            if isinstance(item, (str, int)) and all(isinstance(k, (str, int)) for k in container):
                return T.C(item in container)
            if not container:
                return T.FALSE
            hk = self.I._hashable(item)
            try:
                if hk in container or ("each", to_term(item)) in container:
                    return T.TRUE
            except TypeError:
                pass
        if isinstance(container, str) and isinstance(item, str):
            return T.C(item in container)
        return ("in", to_term(item), to_term(container))

    # ------------------------------------------------------------------ calls
    def call(self, e: ast.Call) -> Any:
        I = self.I
        name = call_name(e)
        if name.startswith(IGNORED_CALL_PREFIX) or name in ("print",):
            return None
        pos: List[Any] = []
        for a in e.args:
            if isinstance(a, ast.Starred):
                v = I.eval(a.value)
                if isinstance(v, (list, PyTuple)):
                    pos.extend(v if isinstance(v, list) else v.items)
                else:
                    pos.append(("starred", to_term(v)))
            else:
                pos.append(I.eval(a))
        kw: Dict[str, Any] = {}
        for k in e.keywords:
            if k.arg is None:
                d = I.eval(k.value)
                if isinstance(d, dict):
                    kw.update({str(x): y for x, y in d.items()})
                else:
                    kw["**"] = d
            else:
                kw[k.arg] = I.eval(k.value)
        if I.call_hook is not None:
            # hooks see every argument under its parameter name as well (callees in the signature table), so that they do not depend on the argument style
            kw_hook = dict(kw)
            sig = _sig_of(e, _progdb.SIGS)
            if sig is not None and not any(isinstance(a, ast.Starred) for a in e.args):
                for p_, v_ in zip(sig, pos):
                    kw_hook.setdefault(p_, v_)
            r = I.call_hook(I, name, pos, kw_hook, e)
            if r is not NotImplemented:
                return r
        callee = I.eval(e.func)
        if I.call_hook is not None and isinstance(callee, FuncRef) and name.split(".")[-1] != callee.qualname.split(".")[-1]:
            # the callee is reached through an alias (a function value kept in a variable / tuple): hooks see it under its own name
            r = I.call_hook(I, callee.qualname, pos, kw_hook, e)
            if r is not NotImplemented:
                return r
        return self.invoke(callee, pos, kw, e, name)

    def invoke(self, callee: Any, pos: List[Any], kw: Dict[str, Any], node, name: str = "") -> Any:
        I = self.I
        if isinstance(callee, FuncRef):
            deco = [ast.unparse(d) for d in getattr(callee.node, "decorator_list", [])]
            depth = sum(1 for a in I.stack if a.func is not None)
            if callee.qualname in I.no_inline or depth > I.inline_depth + 2:
                self.log("call-not-inlined", node, callee=callee.qualname, args=[to_term(x) for x in pos])
                return ("call", callee.qualname) + tuple(to_term(x) for x in pos) + tuple(("kw", k, to_term(v)) for k, v in sorted(kw.items()))
            if I.is_generator(callee.node):
                return GenCall(callee, pos, kw)          # runs when iterated (generator fusion in Interp.st_For / materialise)
            self.log("inline", node, callee=f"{callee.mod.name}:{callee.qualname}")
            return I.call_function(callee, pos, kw, node)
        if isinstance(callee, ClassRef):
            obj = Obj(f"{callee.qualname}#{I.new_id()}", cls=(callee.mod, callee.qualname))
            init = I.find_method((callee.mod, callee.qualname), "__init__")
            mod_cls = callee.mod.classes[callee.qualname]
            is_dc = any("dataclass" in ast.unparse(d) for d in mod_cls.decorator_list)
            nt = any(isinstance(b, ast.Name) and b.id == "NamedTuple" for b in mod_cls.bases)
            if is_dc or nt:
                fields = [st.target.id for st in mod_cls.body if isinstance(st, ast.AnnAssign) and isinstance(st.target, ast.Name)]
                for st in mod_cls.body:
                    if isinstance(st, ast.AnnAssign) and isinstance(st.target, ast.Name) and st.value is not None:
                        obj.attrs[st.target.id] = I._eval_default(FuncRef(callee.mod, mod_cls, callee.qualname), st.value)
                for f, v in zip(fields, pos):
                    obj.attrs[f] = v
                obj.attrs.update(kw)
                if nt:
                    obj.attrs["__fields__"] = list(fields)          # a NamedTuple instance unpacks / indexes in field order
                self.log("construct", node, cls=callee.qualname, attrs={k: to_term(v) for k, v in obj.attrs.items() if k != "__fields__"})
                return obj
            if init is not None and init.mod.name.startswith(("hta", "spec.")):
                init.bound_self = obj
                I.call_function(init, pos, kw, node)
            return obj
        if isinstance(callee, EnumRef):
            return ("enumof", callee.qualname, to_term(pos[0]) if pos else None)
        if isinstance(callee, Obj):
            if "__partial__" in callee.attrs:          # functools.partial(f, *a, **k)(*b, **l) == f(*a, *b, **{**k, **l})
                f0, a0_, k0_ = callee.attrs["__partial__"]
                if I.call_hook is not None and isinstance(f0, FuncRef):          # hooks see the function behind the partial under its own name, with the merged arguments
                    r_ = I.call_hook(I, f0.qualname, list(a0_) + list(pos), {**k0_, **kw}, node)
                    if r_ is not NotImplemented:
                        return r_
                return self.invoke(f0, list(a0_) + list(pos), {**k0_, **kw}, node, name)
            if "__itemgetter__" in callee.attrs and len(pos) == 1 and not kw:
                return self.getitem(pos[0], callee.attrs["__itemgetter__"], node)
            if callee.cls is not None:
                m = I.find_method(callee.cls, "__call__")
                if m is not None:
                    if I.call_hook is not None:          # hooks see the __call__ of a callable object under its qualified name
                        r_ = I.call_hook(I, m.qualname, list(pos), dict(kw), node)
                        if r_ is not NotImplemented:
                            return r_
                    m.bound_self = callee
                    self.log("inline", node, callee=f"{m.mod.name}:{m.qualname}")
                    return I.call_function(m, pos, kw, node)
                if callee.name == "cls" and not callee.attrs and callee.cls[1] in getattr(callee.cls[0], "classes", {}):
                    # the `cls` of a classmethod called: an instance of that class is constructed
                    return self.invoke(ClassRef(callee.cls[0], callee.cls[1]), pos, kw, node, name)
            return ("call", callee.name) + tuple(to_term(x) for x in pos)
        if isinstance(callee, tuple) and len(callee) == 3 and callee[0] == "rematch_method" and isinstance(callee[1], ReMatch):
            if callee[2] in ("group", "groups", "start", "end", "span") and all(isinstance(x, (int, str)) for x in pos) and not kw:
                r_ = getattr(callee[1].m, callee[2])(*pos)
                return PyTuple(list(r_)) if isinstance(r_, tuple) else r_
            return T.opaque(f"match.{callee[2]}")
        if isinstance(callee, tuple) and callee and callee[0] == "ntclass":
            o = Obj(f"{callee[1]}#{I.new_id()}", attrs=dict(zip(callee[2], pos)))
            o.attrs.update(kw)
            o.attrs["__fields__"] = list(callee[2])
            return o
        if isinstance(callee, tuple) and len(callee) == 2 and callee[0] == "ntasdict" and isinstance(callee[1], Obj) and not pos and not kw:
            return {f_: callee[1].attrs[f_] for f_ in callee[1].attrs["__fields__"]}
        if isinstance(callee, tuple) and callee and callee[0] == "method":
            return self.ops.method(callee[1], callee[2], pos, kw, node)
        if isinstance(callee, ExtMod):
            if I.call_hook is not None and name.split(".")[-1] != callee.name.split(".")[-1]:
                # a library function reached through an alias (`opener = gzip.open ...; opener(path)`): hooks see it under its own name
                r_ = I.call_hook(I, callee.name, list(pos), dict(kw), node)
                if r_ is not NotImplemented:
                    return r_
            return self.ops.external(callee.name, pos, kw, node)
        if isinstance(callee, tuple) and callee and callee[0] == "attr" and isinstance(callee[1], tuple) and callee[1] and callee[1][0] == "regex":
            # a compiled pattern applied to CONCRETE strings: the library's own result (sub / subn on literals; match-style calls stay symbolic tests)
            if callee[2] in ("match", "search", "fullmatch") and T.is_const(callee[1][1]) and isinstance(callee[1][1][1], str) and len(pos) == 1 and isinstance(pos[0], str) and not kw:
                import re as _re
                try:
                    m_ = getattr(_re, callee[2])(callee[1][1][1], pos[0])
                    return None if m_ is None else ReMatch(m_)
                except _re.error:
                    pass
            if callee[2] == "sub" and T.is_const(callee[1][1]) and isinstance(callee[1][1][1], str) and len(pos) == 2 and all(isinstance(x, str) for x in pos) and not kw:
                import re as _re
                try:
                    return _re.sub(callee[1][1][1], pos[0], pos[1])
                except _re.error:
                    pass
            return ("re", callee[2], callee[1][1]) + tuple(to_term(x) for x in pos)
        if isinstance(callee, tuple) and callee and callee[0] == "attr" and len(callee) == 3 and callee[2] == "tolist" and not pos and not kw \
                and isinstance(callee[1], tuple) and callee[1] and callee[1][0] == "to_numpy":
            return callee[1]          # array-of-rows.tolist(): the same rows (as lists)
        if isinstance(callee, tuple) and callee and callee[0] == "attr" and len(callee) == 3 and callee[2] == "__getitem__" and len(pos) == 1:
            return ("getitem", callee[1], to_term(pos[0]))             # d.__getitem__(k) is d[k]
        if isinstance(callee, tuple) and callee and callee[0] == "attr" and len(callee) == 3 and callee[2] == "astype" and pos:
            return ("astype", to_term(pos[0]), callee[1])          # a cast of an array-valued term
        if isinstance(callee, tuple) and callee and callee[0] == "attr" and len(callee) == 3 and callee[2] in ("intersection", "isdisjoint") and len(pos) == 1 and not kw:
            return self.ops.python_method(callee[1], callee[2], pos, kw, node)          # symbolic sets: canonical "share an element" form
        if isinstance(callee, tuple) and callee and callee[0] == "attr":
            # method on an opaque object
            self.log("opaque-call", node, callee=T.show(callee), args=[to_term(x) for x in pos])
            return ("call", T.show(callee)) + tuple(to_term(x) for x in pos) + tuple(("kw", k, to_term(v)) for k, v in sorted(kw.items()))
        self.log("opaque-call", node, callee=name, args=[to_term(x) for x in pos])
        return ("call", name) + tuple(to_term(x) for x in pos)
