"""Must-stay-silent battery: behaviour-preserving source transformations applied to the WHOLE hta tree (a scratch copy),
after which every check must still exit 0.  Exit 2 (not understood) is reported as a weakness; exit 1 is a false alarm.

usage: python -B -m sa.selftest.silent [PID ...]      (from /verif)  env JOBS
"""
from __future__ import annotations

import ast
import concurrent.futures as cf
import copy
import json
import os
import shutil
import subprocess
import sys
import tempfile

HERE = os.path.dirname(os.path.dirname(os.path.dirname(os.path.abspath(__file__))))
REPO = os.environ.get("HTA_REPO", "/repo")
ALL = [f"C{i:02d}" for i in range(1, 21)]
CMP_METH = {"eq": ast.Eq, "ne": ast.NotEq, "lt": ast.Lt, "le": ast.LtE, "gt": ast.Gt, "ge": ast.GtE}
METH_OF = {v: k for k, v in CMP_METH.items()}
FLIP = {ast.Lt: ast.Gt, ast.Gt: ast.Lt, ast.LtE: ast.GtE, ast.GtE: ast.LtE, ast.Eq: ast.Eq, ast.NotEq: ast.NotEq}


def _is_col(e) -> bool:
    """df['col'] with a frame-like plain name receiver (not a dict / row)"""
    return isinstance(e, ast.Subscript) and isinstance(e.slice, ast.Constant) and isinstance(e.slice.value, str) and isinstance(e.value, ast.Name) \
        and (e.value.id in AttrToSubscript.FRAMES or "df" in e.value.id or "kernels" in e.value.id or e.value.id in ("comp", "stacks", "m", "ops"))


class MethodToOperator(ast.NodeTransformer):
    """df['a'].eq(x) -> (df['a'] == x)  etc."""

    def visit_Call(self, n):
        self.generic_visit(n)
        if isinstance(n.func, ast.Attribute) and n.func.attr in CMP_METH and len(n.args) == 1 and not n.keywords and _is_col(n.func.value):
            return ast.Compare(left=n.func.value, ops=[CMP_METH[n.func.attr]()], comparators=[n.args[0]])
        return n


class OperatorToMethod(ast.NodeTransformer):
    """(df['a'] > x) -> df['a'].gt(x)"""

    def visit_Compare(self, n):
        self.generic_visit(n)
        if len(n.ops) == 1 and type(n.ops[0]) in METH_OF and _is_col(n.left):
            return ast.Call(func=ast.Attribute(value=n.left, attr=METH_OF[type(n.ops[0])], ctx=ast.Load()), args=[n.comparators[0]], keywords=[])
        return n


class FlipComparisons(ast.NodeTransformer):
    """a > b -> b < a for two non-constant operands of series comparisons and scalar comparisons alike"""

    def visit_Compare(self, n):
        self.generic_visit(n)
        if len(n.ops) == 1 and type(n.ops[0]) in FLIP and not isinstance(n.left, ast.Constant) and not isinstance(n.comparators[0], ast.Constant) \
                and not isinstance(n.left, ast.Call) and not isinstance(n.comparators[0], ast.Call):
            return ast.Compare(left=n.comparators[0], ops=[FLIP[type(n.ops[0])]()], comparators=[n.left])
        return n


class CommuteBoolOps(ast.NodeTransformer):
    """a & b -> b & a ; a | b -> b | a  (element-wise boolean algebra)"""

    def visit_BinOp(self, n):
        self.generic_visit(n)
        if isinstance(n.op, (ast.BitAnd, ast.BitOr)):
            return ast.BinOp(left=n.right, op=n.op, right=n.left)
        return n


class CommuteAdd(ast.NodeTransformer):
    """a + b -> b + a when neither operand is a string / list literal"""

    def visit_BinOp(self, n):
        self.generic_visit(n)
        if isinstance(n.op, ast.Add) and not any(isinstance(x, (ast.Constant, ast.JoinedStr, ast.List, ast.Tuple)) for x in (n.left, n.right)) \
                and all(isinstance(x, (ast.Subscript, ast.Attribute)) for x in (n.left, n.right)):
            return ast.BinOp(left=n.right, op=n.op, right=n.left)
        return n


class AttrToSubscript(ast.NodeTransformer):
    """df.col -> df['col'] for the frame variables and column names HTA uses (loads only)"""
    COLS = {"ts", "dur", "stream", "name", "cat", "end", "index_correlation", "correlation", "end_ts", "kernel_type", "is_start", "idle_interval"}
    FRAMES = {"df", "trace_df", "gpu_kernels", "gpu_kernels_s", "merged_kernels", "comp_kernels", "nodes_df", "result", "events_df", "ops_df_end", "ops"}

    def visit_Attribute(self, n):
        self.generic_visit(n)
        if isinstance(n.ctx, ast.Load) and isinstance(n.value, ast.Name) and n.value.id in self.FRAMES and n.attr in self.COLS:
            return ast.Subscript(value=n.value, slice=ast.Constant(n.attr), ctx=ast.Load())
        return n


class RenameLocals(ast.NodeTransformer):
    """consistently rename the local variables of every function (not parameters, not names used by nested functions / nonlocal / global)"""

    def visit_FunctionDef(self, f):
        params = {a.arg for a in f.args.posonlyargs + f.args.args + f.args.kwonlyargs}
        if f.args.vararg:
            params.add(f.args.vararg.arg)
        if f.args.kwarg:
            params.add(f.args.kwarg.arg)
        nested_names = set()
        for n in ast.walk(f):
            if n is not f and isinstance(n, (ast.FunctionDef, ast.Lambda, ast.ClassDef, ast.GeneratorExp, ast.ListComp, ast.SetComp, ast.DictComp)):
                for x in ast.walk(n):
                    if isinstance(x, ast.Name):
                        nested_names.add(x.id)
                    if isinstance(x, ast.arg):
                        nested_names.add(x.arg)
            if isinstance(n, (ast.Nonlocal, ast.Global)):
                nested_names.update(n.names)
            if isinstance(n, ast.FunctionDef) and n is not f:
                nested_names.add(n.name)
        stored = {n.id for n in ast.walk(f) if isinstance(n, ast.Name) and isinstance(n.ctx, ast.Store)}
        # query strings / f-strings evaluated by pandas may refer to locals by name (@var): keep those
        strs = " ".join(c.value for c in ast.walk(f) if isinstance(c, ast.Constant) and isinstance(c.value, str))
        targets = {s for s in stored if s not in params and s not in nested_names and not s.startswith("_") and ("@" + s) not in strs}
        mapping = {s: s + "_v" for s in targets}

        class R(ast.NodeTransformer):
            def visit_Name(self, n):
                if n.id in mapping:
                    return ast.copy_location(ast.Name(id=mapping[n.id], ctx=n.ctx), n)
                return n

            def visit_FunctionDef(self, n):
                return n

            visit_Lambda = visit_FunctionDef
            visit_ListComp = visit_FunctionDef
            visit_SetComp = visit_FunctionDef
            visit_DictComp = visit_FunctionDef
            visit_GeneratorExp = visit_FunctionDef
            visit_ClassDef = visit_FunctionDef

        f.body = [R().visit(s) for s in f.body]
        # recurse into nested defs (their own locals)
        for s in ast.walk(f):
            if s is not f and isinstance(s, ast.FunctionDef):
                pass
        return f


class IntroduceTemporaries(ast.NodeTransformer):
    """x = <a> op <b>  ->  _vt_N = <a>; x = _vt_N op <b>   (left operand is evaluated first anyway)"""

    def __init__(self):
        self.n = 0

    def _split(self, body):
        out = []
        for st in body:
            if isinstance(st, ast.Assign) and len(st.targets) == 1 and isinstance(st.value, ast.BinOp) and isinstance(st.value.left, (ast.Subscript, ast.Attribute, ast.Call)) \
                    and not any(isinstance(x, (ast.Lambda, ast.NamedExpr, ast.Yield, ast.Await)) for x in ast.walk(st.value)):
                self.n += 1
                nm = f"_vt_{self.n}"
                out.append(ast.Assign(targets=[ast.Name(id=nm, ctx=ast.Store())], value=st.value.left))
                out.append(ast.Assign(targets=st.targets, value=ast.BinOp(left=ast.Name(id=nm, ctx=ast.Load()), op=st.value.op, right=st.value.right)))
            else:
                out.append(st)
        return out

    def generic_visit(self, node):
        super().generic_visit(node)
        for fld in ("body", "orelse", "finalbody"):
            b = getattr(node, fld, None)
            if isinstance(b, list) and b and isinstance(b[0], ast.stmt) and not isinstance(node, ast.ClassDef) and not isinstance(node, ast.Module):
                setattr(node, fld, self._split(b))
        return node


class InvertIfElse(ast.NodeTransformer):
    """if c: A else: B  ->  if not c: B else: A   (only for plain if/else without elif)"""

    def visit_If(self, n):
        self.generic_visit(n)
        if n.orelse and not (len(n.orelse) == 1 and isinstance(n.orelse[0], ast.If)) and not any(isinstance(x, ast.NamedExpr) for x in ast.walk(n.test)):
            return ast.If(test=ast.UnaryOp(op=ast.Not(), operand=n.test), body=n.orelse, orelse=n.body)
        return n


class CopyAfterSelection(ast.NodeTransformer):
    """x = df[<mask expression>]  ->  x = df[<mask expression>].copy()"""

    def visit_Assign(self, n):
        self.generic_visit(n)
        v = n.value
        if isinstance(v, ast.Subscript) and isinstance(v.value, ast.Name) and isinstance(v.slice, (ast.Compare, ast.BoolOp, ast.BinOp, ast.Call)) and \
                (v.value.id in AttrToSubscript.FRAMES or "df" in v.value.id or "kernels" in v.value.id) and len(n.targets) == 1 and isinstance(n.targets[0], ast.Name):
            if isinstance(v.slice, ast.Call) and not (isinstance(v.slice.func, ast.Attribute) and v.slice.func.attr in ("eq", "ne", "gt", "ge", "lt", "le", "isin")):
                return n
            n.value = ast.Call(func=ast.Attribute(value=v, attr="copy", ctx=ast.Load()), args=[], keywords=[])
        return n


class InsertLogging(ast.NodeTransformer):
    """a developer adds debug logging: `logger.debug(...)` after the docstring of every function and in front of every return"""

    def _log(self, txt):
        return ast.Expr(value=ast.Call(func=ast.Attribute(value=ast.Name(id="logger", ctx=ast.Load()), attr="debug", ctx=ast.Load()), args=[ast.Constant(value=txt)], keywords=[]))

    def __init__(self):
        self.has_logger = False

    def visit_Module(self, n):
        self.has_logger = any(isinstance(x, ast.ImportFrom) and any(a.name == "logger" for a in x.names) for x in n.body) or \
            any(isinstance(x, ast.Assign) and any(isinstance(t, ast.Name) and t.id == "logger" for t in x.targets) for x in n.body)
        if not self.has_logger:
            return n
        self.generic_visit(n)
        return n

    def _block(self, stmts):
        out = []
        for st in stmts:
            if isinstance(st, ast.Return):
                out.append(self._log("returning"))
            out.append(st)
        return out

    def visit_FunctionDef(self, n):
        self.generic_visit(n)
        body = list(n.body)
        i = 1 if body and isinstance(body[0], ast.Expr) and isinstance(body[0].value, ast.Constant) and isinstance(body[0].value.value, str) else 0
        while i < len(body) and isinstance(body[i], (ast.Nonlocal, ast.Global)):
            i += 1
        body.insert(i, self._log(f"entering {n.name}"))
        n.body = self._block(body)
        return n

    def visit_If(self, n):
        self.generic_visit(n)
        n.body = self._block(n.body)
        n.orelse = self._block(n.orelse)
        return n


class ExpandAugAssign(ast.NodeTransformer):
    """x += e  ->  x = x + e   for plain names (lists/frames excluded by restricting to numeric-looking right sides is not possible
    syntactically, so only Name targets whose right side is a Name/Constant/BinOp/Attribute/Subscript/Call are rewritten when the
    operator is + or - on names that are never used with .append/.extend in the same function)"""

    def visit_FunctionDef(self, n):
        listy = {c.func.value.id for c in ast.walk(n) if isinstance(c, ast.Call) and isinstance(c.func, ast.Attribute) and c.func.attr in ("append", "extend", "insert") and isinstance(c.func.value, ast.Name)}
        listy |= {t.id for a in ast.walk(n) if isinstance(a, ast.Assign) and isinstance(a.value, (ast.List, ast.ListComp)) for t in a.targets if isinstance(t, ast.Name)}

        class X(ast.NodeTransformer):
            def visit_AugAssign(self, a):
                if isinstance(a.target, ast.Name) and a.target.id not in listy and isinstance(a.op, (ast.Add, ast.Sub, ast.Mult)):
                    return ast.Assign(targets=[ast.Name(id=a.target.id, ctx=ast.Store())], value=ast.BinOp(left=ast.Name(id=a.target.id, ctx=ast.Load()), op=a.op, right=a.value))
                return a

            def visit_FunctionDef(self, f):
                return f if f is not n else self.generic_visit(f)
        X().generic_visit(n)
        self.generic_visit(n)
        return n


class ElifToNested(ast.NodeTransformer):
    """if a: A elif b: B else: C   ->   if a: A else: (if b: B else: C)  -- same AST in Python, but followed by an explicit `pass`-free block with a
    leading no-op expression so that the orelse is no longer a single If"""

    def visit_If(self, n):
        self.generic_visit(n)
        if len(n.orelse) == 1 and isinstance(n.orelse[0], ast.If):
            n.orelse = [ast.Expr(value=ast.Constant(value=None)), n.orelse[0]]
        return n


class RenameInnerParams(ast.NodeTransformer):
    """rename the parameters of lambdas and of nested (inner) functions"""

    def __init__(self):
        self.depth = 0

    def _rename(self, node, params):
        mp = {p: f"{p}_p" for p in params if not p.startswith("_") and p not in ("self", "cls")}

        class R(ast.NodeTransformer):
            def visit_Name(self, x):
                if x.id in mp:
                    return ast.copy_location(ast.Name(id=mp[x.id], ctx=x.ctx), x)
                return x

            def visit_arg(self, a):
                if a.arg in mp:
                    a.arg = mp[a.arg]
                return a

            def visit_Lambda(self, l):
                inner = {a.arg for a in l.args.args}
                if inner & set(mp):
                    return l        # shadowing: leave the inner lambda alone
                return self.generic_visit(l)
        return R().visit(node)

    def visit_Lambda(self, n):
        self.generic_visit(n)
        ps = [a.arg for a in n.args.args]
        if n.args.defaults or n.args.kwonlyargs or n.args.vararg or n.args.kwarg:
            return n
        return self._rename(n, ps)

    def visit_FunctionDef(self, n):
        self.depth += 1
        self.generic_visit(n)
        self.depth -= 1
        return n


def _signature_table():
    """name -> parameter list for functions / methods whose name is defined exactly once in hta (plain positional-or-keyword parameters only)"""
    seen = {}
    for dp, dn, files in os.walk(os.path.join(REPO, "hta")):
        for f in files:
            if not f.endswith(".py"):
                continue
            try:
                tree = ast.parse(open(os.path.join(dp, f), encoding="utf-8").read())
            except SyntaxError:
                continue
            for n in ast.walk(tree):
                if isinstance(n, ast.FunctionDef):
                    a = n.args
                    ok = not a.vararg and not a.kwarg and not a.posonlyargs and not n.decorator_list or all(ast.unparse(d) in ("staticmethod", "classmethod") for d in n.decorator_list) and not a.vararg and not a.kwarg
                    seen.setdefault(n.name, []).append(([x.arg for x in a.args], [ast.unparse(d) for d in n.decorator_list]) if ok else None)
    return {k: v[0] for k, v in seen.items() if len(v) == 1 and v[0] is not None and not k.startswith("__")}


_SIG = None


class PositionalToKeyword(ast.NodeTransformer):
    """f(a, b) -> f(x=a, y=b) for calls to functions / methods defined exactly once in hta"""

    def visit_Call(self, n):
        global _SIG
        self.generic_visit(n)
        if _SIG is None:
            _SIG = _signature_table()
        if any(isinstance(a, ast.Starred) for a in n.args) or any(k.arg is None for k in n.keywords) or not n.args:
            return n
        name, skip = None, 0
        if isinstance(n.func, ast.Name):
            name = n.func.id
        elif isinstance(n.func, ast.Attribute) and isinstance(n.func.value, ast.Name) and n.func.value.id in ("self", "cls"):
            name, skip = n.func.attr, 1
        sig = _SIG.get(name) if name else None
        if sig is None:
            return n
        params, decos = sig
        if skip == 0 and params and params[0] in ("self", "cls"):
            return n
        if skip == 1 and "staticmethod" in decos:
            skip = 0
        if skip == 1 and not (params and params[0] in ("self", "cls")):
            return n
        params = params[skip:]
        if len(n.args) > len(params):
            return n
        used = {k.arg for k in n.keywords}
        new_kw = []
        for a, p_ in zip(n.args, params):
            if p_ in used:
                return n
            new_kw.append(ast.keyword(arg=p_, value=a))
        n.keywords = new_kw + n.keywords
        n.args = []
        return n


class AnnotateAssignments(ast.NodeTransformer):
    """x = e  ->  x: "object" = e   (single plain-name targets inside functions)"""

    def __init__(self):
        self.in_func = 0

    def visit_FunctionDef(self, n):
        self.in_func += 1
        declared = {nm for x in ast.walk(n) if isinstance(x, (ast.Global, ast.Nonlocal)) for nm in x.names}
        self.declared = getattr(self, "declared", set()) | declared
        self.generic_visit(n)
        self.in_func -= 1
        return n

    def visit_Assign(self, n):
        if self.in_func and len(n.targets) == 1 and isinstance(n.targets[0], ast.Name) and n.targets[0].id not in getattr(self, "declared", set()):
            return ast.AnnAssign(target=n.targets[0], annotation=ast.Constant(value="object"), value=n.value, simple=1)
        return n


class BoolIndexToLoc(ast.NodeTransformer):
    """df[<boolean mask expression>] -> df.loc[<boolean mask expression>]  (loads only)"""

    def visit_Subscript(self, n):
        self.generic_visit(n)
        if isinstance(n.ctx, ast.Load) and isinstance(n.value, ast.Name) and (n.value.id in AttrToSubscript.FRAMES or "df" in n.value.id or "kernels" in n.value.id):
            sl = n.slice
            is_mask = isinstance(sl, (ast.Compare, ast.BoolOp)) or (isinstance(sl, ast.BinOp) and isinstance(sl.op, (ast.BitAnd, ast.BitOr))) or \
                (isinstance(sl, ast.UnaryOp) and isinstance(sl.op, ast.Invert)) or \
                (isinstance(sl, ast.Call) and isinstance(sl.func, ast.Attribute) and sl.func.attr in ("eq", "ne", "gt", "ge", "lt", "le", "isin", "notna", "isna", "notnull", "isnull"))
            if is_mask:
                return ast.Subscript(value=ast.Attribute(value=n.value, attr="loc", ctx=ast.Load()), slice=sl, ctx=ast.Load())
        return n


class SwapIndependentAssignments(ast.NodeTransformer):
    """two adjacent assignments `a = e1; b = e2` (plain names, call-free right sides, neither mentions the other's target) are swapped"""

    def _swap(self, body):
        out, i = list(body), 0
        while i + 1 < len(out):
            a, b = out[i], out[i + 1]
            if all(isinstance(x, ast.Assign) and len(x.targets) == 1 and isinstance(x.targets[0], ast.Name) and not any(isinstance(y, (ast.Call, ast.NamedExpr, ast.Await, ast.Yield)) for y in ast.walk(x.value)) for x in (a, b)):
                ta, tb = a.targets[0].id, b.targets[0].id
                na = {y.id for y in ast.walk(a.value) if isinstance(y, ast.Name)}
                nb = {y.id for y in ast.walk(b.value) if isinstance(y, ast.Name)}
                if ta != tb and ta not in nb and tb not in na:
                    out[i], out[i + 1] = b, a
                    i += 2
                    continue
            i += 1
        return out

    def generic_visit(self, n):
        super().generic_visit(n)
        for fld in ("body", "orelse", "finalbody"):
            v = getattr(n, fld, None)
            if isinstance(v, list) and v and isinstance(v[0], ast.stmt):
                setattr(n, fld, self._swap(v))
        return n


def t_unparse(src: str) -> str:
    return ast.unparse(ast.parse(src)) + "\n"


def t_shift_lines(src: str) -> str:
    lines = src.splitlines(keepends=True)
    out, done = [], False
    for ln in lines:
        if not done and (ln.startswith("import ") or ln.startswith("from ")):
            out.append("# line shift inserted by the verification self-test\n" * 7)
            done = True
        out.append(ln)
    return "".join(out)


def _tx(cls):
    def f(src: str) -> str:
        tree = ast.parse(src)
        tree = cls().visit(tree)
        ast.fix_missing_locations(tree)
        return ast.unparse(tree) + "\n"
    return f


TRANSFORMS = {
    "reformat (ast.unparse round trip)": t_unparse,
    "shift every line number": t_shift_lines,
    "comparison method -> operator": _tx(MethodToOperator),
    "comparison operator -> method": _tx(OperatorToMethod),
    "flip comparisons (a > b -> b < a)": _tx(FlipComparisons),
    "commute & and |": _tx(CommuteBoolOps),
    "commute column additions": _tx(CommuteAdd),
    "attribute column access -> subscript": _tx(AttrToSubscript),
    "rename local variables": _tx(RenameLocals),
    "introduce temporaries for left operands": _tx(IntroduceTemporaries),
    "invert if/else": _tx(InvertIfElse),
    "copy() after boolean selection": _tx(CopyAfterSelection),
    "insert debug logging (function entry, before returns)": _tx(InsertLogging),
    "x += e -> x = x + e": _tx(ExpandAugAssign),
    "elif -> else: <no-op>; if": _tx(ElifToNested),
    "rename lambda parameters": _tx(RenameInnerParams),
    "positional -> keyword arguments (hta-defined callees)": _tx(PositionalToKeyword),
    "annotate local assignments (x: T = e)": _tx(AnnotateAssignments),
    "df[mask] -> df.loc[mask]": _tx(BoolIndexToLoc),
    "swap adjacent independent assignments": _tx(SwapIndependentAssignments),
}


def make_variant(name: str, dst: str) -> int:
    fn = TRANSFORMS[name]
    changed = 0
    for dp, dn, files in os.walk(os.path.join(REPO, "hta")):
        for f in files:
            src_p = os.path.join(dp, f)
            rel = os.path.relpath(src_p, REPO)
            out_p = os.path.join(dst, rel)
            os.makedirs(os.path.dirname(out_p), exist_ok=True)
            if not f.endswith(".py"):
                shutil.copy(src_p, out_p)
                continue
            src = open(src_p, encoding="utf-8").read()
            try:
                new = fn(src)
                compile(new, rel, "exec")
            except Exception:
                new = src
            if new != src:
                changed += 1
            open(out_p, "w", encoding="utf-8").write(new)
    return changed


def run_variant(name: str, pids):
    tmp = tempfile.mkdtemp(prefix="hta_silent_")
    try:
        changed = make_variant(name, tmp)
        env = dict(os.environ, HTA_REPO=tmp, VERIF_EVIDENCE_DIR=os.path.join(tmp, "evidence"))
        res = {}
        for pid in pids:
            p = subprocess.run(["/venv/bin/python", "-B", os.path.join(HERE, "check.py"), pid], capture_output=True, text=True, env=env, cwd=HERE)
            first = [l.strip()[:260] for l in p.stdout.splitlines() if l.strip().startswith(("violated", "ANALYSIS-ERROR"))][:2]
            res[pid] = (p.returncode, first)
        return name, changed, res
    finally:
        shutil.rmtree(tmp, ignore_errors=True)


def main(argv):
    pids = [a for a in argv if a.startswith("C")] or ALL
    names = list(TRANSFORMS)
    out = {}
    with cf.ThreadPoolExecutor(int(os.environ.get("JOBS", "9"))) as ex:
        for name, changed, res in ex.map(lambda n: run_variant(n, pids), names):
            out[name] = {"files_changed": changed, "results": res}
            bad = {p: r for p, r in res.items() if r[0] != 0}
            print(f"== {name}: {changed} files changed; silent on {len(res) - len(bad)}/{len(res)}")
            for p, (rc, first) in sorted(bad.items()):
                print(f"   {p} rc={rc} {'FALSE ALARM' if rc == 1 else 'not understood'} :: {first[0] if first else ''}")
    json.dump(out, open("/tmp/silent_result.json", "w"), indent=1)
    return 0


if __name__ == "__main__":
    sys.exit(main(sys.argv[1:]))
