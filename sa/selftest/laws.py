"""Validation of the evaluator's normal form (the trusted base of every term comparison) - thorough tier.

LAWS      pairs of pandas programs the evaluator must map to the SAME term (each law was added when a behaviour-preserving
          refactoring needed it) ...
NONLAWS   ... and pairs it must keep APART (each differs on some frame).
Both lists are also run under the real pandas on random small frames: a LAW pair must agree on every frame, a NONLAW pair must
differ on at least one.  What is executed here is the two little programs below, never the repository's code: the point is to
check the checker's model of the library, the same way c07.thorough checks the sweep template.

usage: python -m sa.selftest.laws [--concrete]   (exit 0 = all as expected)
"""
from __future__ import annotations

import sys
from typing import Any, Dict, List, Tuple

PRE = "import pandas as pd\nimport numpy as np\nimport operator\nimport functools\n"

# every program defines f(df) and returns a Series (or a frame column) computed from df (columns a, b: ints; k: small ints; s: strings)
LAWS: List[Tuple[str, str, str]] = [
    ("eta: apply(lambda x: g(x)) == apply(g)",
     "def g(x):\n    return x + 1\ndef f(df):\n    return df['a'].apply(lambda x: g(x))\n",
     "def g(x):\n    return x + 1\ndef f(df):\n    return df['a'].apply(g)\n"),
    ("row-wise lambda == vectorised arithmetic",
     "def f(df):\n    return df['a'].apply(lambda x: x * 2 + 1)\n",
     "def f(df):\n    return df['a'] * 2 + 1\n"),
    ("list comprehension over a column stored back == apply",
     "def f(df):\n    df = df.copy()\n    df['c'] = [v - 3 for v in df['a']]\n    return df['c']\n",
     "def f(df):\n    df = df.copy()\n    df['c'] = df['a'].apply(lambda v: v - 3)\n    return df['c']\n"),
    ("Series over iterrows == apply(axis=1)",
     "def h(row):\n    return row['a'] - row['b']\ndef f(df):\n    return pd.Series([h(row) for _, row in df.iterrows()], index=df.index)\n",
     "def h(row):\n    return row['a'] - row['b']\ndef f(df):\n    return df.apply(h, axis=1)\n"),
    ("np.where == Series.where",
     "def f(df):\n    return pd.Series(np.where(df['a'] > df['b'], df['a'], df['b']), index=df.index)\n",
     "def f(df):\n    return df['a'].where(df['a'] > df['b'], df['b'])\n"),
    ("mask == where of the negation",
     "def f(df):\n    return df['a'].mask(df['a'] > 2, df['b'])\n",
     "def f(df):\n    return df['a'].where(~(df['a'] > 2), df['b'])\n"),
    ("np.logical_and == &",
     "def f(df):\n    return np.logical_and(df['a'] > 1, df['b'] < 3)\n",
     "def f(df):\n    return (df['a'] > 1) & (df['b'] < 3)\n"),
    ("method and operator forms of comparison / arithmetic",
     "def f(df):\n    return df['a'].sub(df['b']).lt(0)\n",
     "def f(df):\n    return (df['a'] - df['b']) < 0\n"),
    ("operator module",
     "def f(df):\n    return operator.le(df['a'], df['b'])\n",
     "def f(df):\n    return df['a'] <= df['b']\n"),
    ("commuted comparison",
     "def f(df):\n    return df['b'] > df['a']\n",
     "def f(df):\n    return df['a'] < df['b']\n"),
    ("boolean mask: df[m] == df.loc[m]",
     "def f(df):\n    return df[df['a'] > 1]['b']\n",
     "def f(df):\n    return df.loc[df['a'] > 1, 'b']\n"),
    ("two filters == one conjunction",
     "def f(df):\n    d = df[df['a'] > 1]\n    return d[d['b'] < 3]['k']\n",
     "def f(df):\n    return df[(df['a'] > 1) & (df['b'] < 3)]['k']\n"),
    ("isin over a filtered list of the column's own values == the predicate",
     "def f(df):\n    return df['a'].isin([x for x in df['a'].unique() if x > 2])\n",
     "def f(df):\n    return df['a'] > 2\n"),
    ("map over a table of the column's own values == apply",
     "def f(df):\n    return df['a'].map({k: k * 3 for k in df['a'].unique()})\n",
     "def f(df):\n    return df['a'].apply(lambda k: k * 3)\n"),
    ("np.isin == Series.isin",
     "def f(df):\n    return np.isin(df['a'], [1, 3])\n",
     "def f(df):\n    return df['a'].isin([1, 3])\n"),
    ("functools.reduce of & == chained &",
     "def f(df):\n    return functools.reduce(lambda x, y: x & y, [df['a'] > 0, df['b'] > 0, df['k'] > 0])\n",
     "def f(df):\n    return (df['a'] > 0) & (df['b'] > 0) & (df['k'] > 0)\n"),
    ("conditional expression in a row-wise lambda == np.where",
     "def f(df):\n    return df['a'].apply(lambda v: 1 if v > 2 else 0)\n",
     "def f(df):\n    return pd.Series(np.where(df['a'] > 2, 1, 0), index=df.index)\n"),
    ("clip(lower) == np.maximum",
     "def f(df):\n    return (df['a'] - df['b']).clip(lower=0)\n",
     "def f(df):\n    return np.maximum(df['a'] - df['b'], 0)\n"),
    ("named aggregation == column aggregation",
     "def f(df):\n    return df.groupby('k').agg(t=('a', 'sum'))['t']\n",
     "def f(df):\n    return df.groupby('k')['a'].agg(t='sum')['t']\n"),
    ("max in three spellings",
     "def f(df):\n    return np.maximum(df['a'], df['b'])\n",
     "def f(df):\n    return df['a'].where(df['a'] > df['b'], df['b'])\n"),
    ("row-wise max == vectorised max",
     "def f(df):\n    return df.apply(lambda r: max(r['a'], r['b']), axis=1)\n",
     "def f(df):\n    return df[['a', 'b']].max(axis=1)\n"),
    ("between == two comparisons",
     "def f(df):\n    return df['a'].between(1, 3)\n",
     "def f(df):\n    return (df['a'] >= 1) & (df['a'] <= 3)\n"),
    ("negated comparison",
     "def f(df):\n    return ~(df['a'] > df['b'])\n",
     "def f(df):\n    return df['a'] <= df['b']\n"),
    ("De Morgan",
     "def f(df):\n    return ~((df['a'] > 1) | (df['b'] > 1))\n",
     "def f(df):\n    return (df['a'] <= 1) & (df['b'] <= 1)\n"),
    ("query string == mask",
     "def f(df):\n    return df.query('a > 1 and b < 3')['k']\n",
     "def f(df):\n    return df[(df['a'] > 1) & (df['b'] < 3)]['k']\n"),
    ("assign == column store on a copy",
     "def f(df):\n    return df.assign(c=df['a'] + df['b'])['c']\n",
     "def f(df):\n    d = df.copy()\n    d['c'] = d['a'] + d['b']\n    return d['c']\n"),
    ("rename then read == read",
     "def f(df):\n    return df.rename(columns={'a': 'z'})['z'] + 1\n",
     "def f(df):\n    return df['a'] + 1\n"),
    ("frame from columns of one frame",
     "def f(df):\n    return pd.DataFrame({'x': df['a'] - df['b'], 'y': df['k']})['x']\n",
     "def f(df):\n    return df['a'] - df['b']\n"),
    ("zip over tolists walks the rows",
     "def f(df):\n    d = df.copy()\n    d['c'] = [x - y for x, y in zip(d['a'].tolist(), d['b'].tolist())]\n    return d['c']\n",
     "def f(df):\n    return df['a'] - df['b']\n"),
    ("groupby sum is linear",
     "def f(df):\n    return df.assign(c=df['a'] + df['b']).groupby('k')['c'].sum()\n",
     "def f(df):\n    return df.groupby('k')['a'].sum() + df.groupby('k')['b'].sum()\n"),
    ("stable sort by two keys == two stable sorts",
     "def f(df):\n    return df.sort_values(['k', 'a'], kind='stable')['b'].cumsum()\n",
     "def f(df):\n    return df.sort_values('a', kind='stable').sort_values('k', kind='stable')['b'].cumsum()\n"),
    ("generator fusion: a loop over a generator == the loop over what it iterates",
     "def rows(df):\n    for _, x, y in df[['a', 'b']].itertuples():\n        yield x, y - x\ndef f(df):\n    out = []\n    for x, d in rows(df):\n        out.append(x + d)\n    return pd.Series(out, index=df.index)\n",
     "def f(df):\n    out = []\n    for _, x, y in df[['a', 'b']].itertuples():\n        out.append(x + (y - x))\n    return pd.Series(out, index=df.index)\n"),
    ("partial application",
     "def g(x, y):\n    return x - y\ndef f(df):\n    return df['a'].apply(functools.partial(g, y=2))\n",
     "def f(df):\n    return df['a'] - 2\n"),
    ("DataFrame.eval of an expression == the column arithmetic",
     "def f(df):\n    return df.eval('a - b')\n",
     "def f(df):\n    return df['a'] - df['b']\n"),
    ("DataFrame.eval with assignments (later lines see earlier ones; series methods allowed)",
     "def f(df):\n    return df.eval('c = a + b\\nd = c.shift(1)')['d']\n",
     "def f(df):\n    return (df['a'] + df['b']).shift(1)\n"),
    ("query string == boolean mask",
     "def f(df):\n    return df.query('a > 1 and b != 3')['k']\n",
     "def f(df):\n    return df[(df['a'] > 1) & (df['b'] != 3)]['k']\n"),
    ("Series.groupby(key series over the same rows) == frame.groupby(key column)[value column]",
     "def f(df):\n    return df['a'].groupby(df['k']).sum()\n",
     "def f(df):\n    return df.groupby('k')['a'].sum()\n"),
    ("a function object applied to a column == its __call__ body",
     "class G:\n    def __init__(self, y):\n        self.y = y\n    def __call__(self, x):\n        return x - self.y\ndef f(df):\n    return df['a'].apply(G(2))\n",
     "def f(df):\n    return df['a'] - 2\n"),
    ("last match of a forward scan == first match of the reversed scan (next over a filtered generator)",
     "def f(df):\n    arr = df[['a', 'b']].to_numpy()\n    def g(t):\n        r = -1\n        for row in arr:\n            if row[0] <= t:\n                r = row[1]\n        return r\n    return df['k'].apply(g)\n",
     "def f(df):\n    arr = df[['a', 'b']].to_numpy()\n    def g(t):\n        return next((row[1] for row in arr[::-1] if row[0] <= t), -1)\n    return df['k'].apply(g)\n"),
    ("where keeps the name of the series (a named series used as a frame carries its own values)",
     "def f(df):\n    return df['a'].where(df['a'] > 1, 0).to_frame()['a']\n",
     "def f(df):\n    return df['a'].where(df['a'] > 1, 0)\n"),
]

# laws used by RULES (not by the normal form): the two programs are only run under the real pandas and must agree on every frame
RULE_LAWS: List[Tuple[str, str, str]] = [
    ("melt == the concatenation of one copy of the rows per value column (T.melt_pieces, C14)",
     "def f(df):\n    m = df[['k', 'a', 'b']].melt(id_vars=['k'], value_vars=['a', 'b'], var_name='v', value_name='t')\n    return m['t'] * 10 + m['k'] + m['v'].eq('a')\n",
     "def f(df):\n    p = pd.concat([df[['k']].assign(t=df['a'], v='a'), df[['k']].assign(t=df['b'], v='b')], ignore_index=True)\n    return p['t'] * 10 + p['k'] + p['v'].eq('a')\n"),
    ("markers as column labels: rename to +-v before melt == replace after melt (C07 reference sweeps)",
     "def f(df):\n    return df[['a', 'b']].rename(columns={'a': 1, 'b': -1}).melt(var_name='st', value_name='t')['st'].cumsum()\n",
     "def f(df):\n    return df[['a', 'b']].melt(var_name='st', value_name='t').replace({'a': 1, 'b': -1})['st'].cumsum()\n"),
    ("an inner join on K: restricting ONE side to K in S restricts the pairs as restricting both does (the same multiset of pairs; C15)",
     "def f(df):\n    L, R = df[df['a'] > 1][['k', 'a']], df[df['a'] <= 1][['k', 'b']]\n    S = [0, 2]\n    return pd.merge(L[L['k'].isin(S)], R[R['k'].isin(S)], on='k', how='inner').eval('a * 10 + b').sort_values().reset_index(drop=True)\n",
     "def f(df):\n    L, R = df[df['a'] > 1][['k', 'a']], df[df['a'] <= 1][['k', 'b']]\n    S = [0, 2]\n    return L[L['k'].isin(S)].join(R.set_index('k'), on='k', how='inner').reset_index(drop=True).eval('a * 10 + b').sort_values().reset_index(drop=True)\n"),
]

NONLAWS: List[Tuple[str, str, str]] = [
    ("strictness", "def f(df):\n    return df['a'] < df['b']\n", "def f(df):\n    return df['a'] <= df['b']\n"),
    ("shift direction", "def f(df):\n    return df['a'].shift(1)\n", "def f(df):\n    return df['a'].shift(-1)\n"),
    ("cummax / cummin", "def f(df):\n    return df['a'].cummax()\n", "def f(df):\n    return df['a'].cummin()\n"),
    ("membership / range", "def f(df):\n    return df['a'].isin([1, 3])\n", "def f(df):\n    return df['a'].between(1, 3)\n"),
    ("where branches swapped", "def f(df):\n    return df['a'].where(df['a'] > 2, df['b'])\n", "def f(df):\n    return df['b'].where(df['a'] > 2, df['a'])\n"),
    ("sum / count", "def f(df):\n    return df.groupby('k')['a'].sum()\n", "def f(df):\n    return df.groupby('k')['a'].count()\n"),
    ("cumsum before / after a sort", "def f(df):\n    return df.sort_values('a', kind='stable')['b'].cumsum()\n", "def f(df):\n    return df['b'].cumsum()\n"),
    ("and / or", "def f(df):\n    return (df['a'] > 1) & (df['b'] > 1)\n", "def f(df):\n    return (df['a'] > 1) | (df['b'] > 1)\n"),
    ("filter on another column", "def f(df):\n    return df[df['a'] > 1]['k']\n", "def f(df):\n    return df[df['b'] > 1]['k']\n"),
    ("clip side", "def f(df):\n    return (df['a'] - df['b']).clip(lower=0)\n", "def f(df):\n    return (df['a'] - df['b']).clip(upper=0)\n"),
    ("mask / where", "def f(df):\n    return df['a'].mask(df['a'] > 2, df['b'])\n", "def f(df):\n    return df['a'].where(df['a'] > 2, df['b'])\n"),
    ("left / inner join", "def f(df):\n    return df.merge(df[df['a'] > 2][['k', 'a']].drop_duplicates('k'), on='k', how='left')['a_y']\n",
     "def f(df):\n    return df.merge(df[df['a'] > 2][['k', 'a']].drop_duplicates('k'), on='k', how='inner')['a_y']\n"),
    ("first / last of a group", "def f(df):\n    return df.groupby('k')['a'].first()\n", "def f(df):\n    return df.groupby('k')['a'].last()\n"),
    ("duplicates kept first / last", "def f(df):\n    return df.drop_duplicates('k', keep='first')['a']\n", "def f(df):\n    return df.drop_duplicates('k', keep='last')['a']\n"),
    ("shift inside a group / over the frame", "def f(df):\n    return df.groupby('k')['a'].shift(1)\n", "def f(df):\n    return df['a'].shift(1)\n"),
    ("sort direction", "def f(df):\n    return df.sort_values('a', ascending=True, kind='stable')['b'].cumsum()\n", "def f(df):\n    return df.sort_values('a', ascending=False, kind='stable')['b'].cumsum()\n"),
    ("min / max", "def f(df):\n    return np.minimum(df['a'], df['b'])\n", "def f(df):\n    return np.maximum(df['a'], df['b'])\n"),
    ("between inclusive / exclusive", "def f(df):\n    return df['a'].between(1, 3)\n", "def f(df):\n    return (df['a'] > 1) & (df['a'] < 3)\n"),
    ("key order of a two-key sort", "def f(df):\n    return df.sort_values(['k', 'a'], kind='stable')['b'].cumsum()\n", "def f(df):\n    return df.sort_values(['a', 'k'], kind='stable')['b'].cumsum()\n"),
    ("off by one constant", "def f(df):\n    return df['a'].apply(lambda v: v + 1)\n", "def f(df):\n    return df['a'] + 2\n"),
]


def symbolic(db, src: str):
    from ..core.specrun import run_spec
    from ..core.values import Frame, Ser, to_term
    from ..core import terms as T
    DF = ("param", "LAWDF")
    runs = [r for r in run_spec(db, PRE + src, "f", lambda I: {"df": Frame(DF, known=["a", "b", "k", "s"])}) if r.raised is None]
    if len(runs) != 1:
        return ("paths", len(runs))
    r = runs[0].ret
    if isinstance(r, Ser):
        t = T.boolnorm(r.term) if hasattr(T, "boolnorm") else r.term
        return ("ser", t, r.ctx[1], r.ctx[2])
    return ("value", to_term(r))


def _frames(n: int = 60):
    import random
    import pandas as pd
    rnd = random.Random(7)
    out = []
    for i in range(n):
        m = rnd.randint(0, 7)
        out.append(pd.DataFrame({"a": [rnd.randint(-1, 5) for _ in range(m)], "b": [rnd.randint(-1, 5) for _ in range(m)], "k": [rnd.randint(0, 2) for _ in range(m)],
                                 "s": [rnd.choice("xyz") for _ in range(m)]}, index=list(range(10, 10 + m))))
    return out


def concrete(src: str, frames) -> List[Any]:
    ns: Dict[str, Any] = {}
    exec(PRE + src, ns)          # noqa: S102 - the little programs above, not repository code
    out = []
    import pandas as pd
    import numpy as np
    for df in frames:
        try:
            r = ns["f"](df.copy())
            if isinstance(r, np.ndarray):
                r = pd.Series(r, index=df.index[: len(r)])
            out.append((list(r.index), [None if (isinstance(v, float) and v != v) else (v.item() if hasattr(v, "item") else v) for v in r.tolist()]))
        except Exception as ex:          # noqa
            out.append(("raised", type(ex).__name__))
    return out


def run(db, with_concrete: bool = True) -> Dict[str, Any]:
    res = {"laws": {}, "nonlaws": {}, "failures": []}
    frames = _frames() if with_concrete else []
    for name, a, b in LAWS:
        sa_, sb_ = symbolic(db, a), symbolic(db, b)
        same = sa_ == sb_ and sa_[0] != "paths"
        agree = concrete(a, frames) == concrete(b, frames) if with_concrete else None
        res["laws"][name] = {"same_term": same, "agree_under_pandas": agree}
        if agree is False:
            res["failures"].append(f"LAW '{name}' is not a law under this pandas (the two programs differ on a frame)")
        elif not same:
            res["failures"].append(f"LAW '{name}': the evaluator gives different terms")
    res["rule_laws"] = {}
    for name, a, b in (RULE_LAWS if with_concrete else []):
        agree = concrete(a, frames) == concrete(b, frames) and not all(isinstance(x, tuple) and x and x[0] == "raised" for x in concrete(a, frames))
        res["rule_laws"][name] = {"agree_under_pandas": agree}
        if not agree:
            res["failures"].append(f"RULE LAW '{name}' does not hold under this pandas")
    for name, a, b in NONLAWS:
        sa_, sb_ = symbolic(db, a), symbolic(db, b)
        same = sa_ == sb_
        differ = concrete(a, frames) != concrete(b, frames) if with_concrete else None
        res["nonlaws"][name] = {"same_term": same, "differ_under_pandas": differ}
        if differ is False:
            res["failures"].append(f"NONLAW '{name}' never differs on the sampled frames (useless pair)")
        if same:
            res["failures"].append(f"NONLAW '{name}': the evaluator IDENTIFIES two programs that differ - unsound normal form")
    return res


if __name__ == "__main__":
    sys.path.insert(0, "/verif")
    from sa.core.progdb import ProgramDB
    import os
    r = run(ProgramDB(os.environ.get("HTA_REPO", "/repo")), "--no-concrete" not in sys.argv)
    for k in ("laws", "rule_laws", "nonlaws"):
        for n, v in r[k].items():
            print(k, n, v)
    for f in r["failures"]:
        print("FAIL", f)
    sys.exit(1 if r["failures"] else 0)
