"""Thorough tier: two-sided self-test of a property's checker on scratch copies of the CURRENT /repo tree.

must-fire  : every confirmed seeded change of the property (seeded/<PID>-*/patch.diff), the reverts of the repairs that concern it
             and the generated single-point mutants (sa/selftest/mutants.py) must make the quick check exit 1
must-silent: the whole-tree behaviour-preserving transformations (sa/selftest/silent.py) must leave it at exit 0
A self-test failure is an ANALYSIS-ERROR of the checker (exit 2), never a violation of the property.
Scratch copies live under a fresh mkdtemp and are removed."""
from __future__ import annotations

import concurrent.futures as cf
import glob
import os
import shutil
import subprocess
import tempfile

from . import silent

HERE = os.path.dirname(os.path.dirname(os.path.dirname(os.path.abspath(__file__))))
REVERTS = {
    "revert_F1_align_end.diff": ["C01", "C12", "C13"], "revert_F2_queue_tie.diff": ["C14"], "revert_F3_kernel_aggr.diff": ["C05"],
    "revert_F4_gzip.diff": ["C20"], "revert_F5_string_dtype.diff": ["C18"], "revert_F6_drop_axis.diff": ["C08"], "revert_F7_ts_downcast.diff": ["C01"],
}


# seeded changes the checker answers with "not understood" (exit 2) BY DESIGN: the change moves the code outside the shape the rule can
# interpret and the rule cannot tell it from a correct alternative algorithm.  Listed by name with the reason; exit 2 is required for
# them (exit 0 - a silent pass - would be a self-test failure).
EXPECTED_NOT_UNDERSTOOD = {
    "seeded/C06-U/patch.diff": "the launch time reaches the kernels through a positional numpy gather on index_correlation that masks the sentinel 0 only (-1 wraps to the last row): the gap slots are read off a join, which is gone; which sentinels a gather must mask is not modelled",
    "seeded/C20-U/patch.diff": "rank discovery rewritten to read 1 MiB chunks with a 64-character carry-over (a rank whose digits straddle a chunk boundary is truncated): whether a chunked scan sees every match whole is not decidable from the shape; the two shape rules that used to answer (pattern literal not found, no line loop) recognised none of their constructs",
    "seeded/C03-V/patch.diff": "an np.lexsort fast path for threads without zero-duration events hands the scan an array the comparator never sorted: the tie rules were decided for the comparator, not for a lexicographic key (clause: the comparator sort is on every path)",
    "seeded/C05-O/patch.diff": "type labels looked up through a table keyed by the running value: the label column is built another way; the old catch came from the label-loop rule reading decisions that are absent from that construction",
    "seeded/C07-U/patch.diff": "merge_kernel_intervals rewritten with np.flatnonzero / np.maximum.reduceat (running maximum lost): a numpy algorithm the evaluator does not interpret",
    "seeded/C07-V/patch.diff": "the +-marker counter replaced by forward-filled boolean state columns plus >= in the merge: another sweep algorithm than the two-marker template",
    "seeded/C09-V/patch.diff": "nx.dag_longest_path replaced by a hand-rolled relaxation over a (ts, is_start, id) order: whether a hand-made order is topological for every graph is not decidable from the shape (same family as C09-T)",
    "seeded/C12-U/patch.diff": "step lookup vectorised with np.searchsorted over unsorted step starts: searchsorted is not interpreted (same family as C12-C)",
    "seeded/C16-L/patch.diff": "the per-pattern duration lists replaced by another accumulator: the rule looks for the two list stores and finds neither (look-for rule: not understood)",
    "seeded/C12-C/patch.diff": "step lookup rewritten with np.searchsorted over unsorted annotations: the evaluator has no model of searchsorted",
    "seeded/C07-E/patch.diff": "computation kernels swept unmerged with running >= 3: a different sweep algorithm; the rule only knows the two-merged-operand template",
    "seeded/C11-F/patch.diff": "cat/name encoded with two pd.factorize calls and an offset: ids no longer read from the table; pd.factorize is not interpreted",
    "seeded/C01-O/patch.diff": "symbol table built with pd.factorize and an id offset: pd.factorize is not interpreted (same family as C11-F)",
    "seeded/C03-P/patch.diff": "the START/END sort and scan replaced by a single sweep popping frames whose end <= ts: another stack algorithm; the rule only knows the sorted two-endpoint scan",
    "seeded/C12-O/patch.diff": "host step lookup vectorised with pd.cut over step starts: pd.cut is not interpreted",
    "seeded/C13-P/patch.diff": "heights by one reverse pass over the node map instead of the recursion: another traversal; the rule abstracts the recursive call",
    "seeded/C18-O/patch.diff": "binary-search fast path with Series.searchsorted: searchsorted is not interpreted",
    "seeded/C16-R/patch.diff": "root selection by a per-name minimum depth (groupby('name')['depth'].transform('min')): a grouped transform as a row mask is not interpreted",
    "seeded/C17-Q/patch.diff": "the comparison table built by concatenating a DICT of the non-empty summaries and re-indexing the columns: another construction; the rule knows the keyed concat of both summaries",
    "seeded/C09-T/patch.diff": "dag_longest_path is handed a topo_order built by sorting the nodes by time stamp: whether a hand-made order is a topological order of every graph is not decidable from the shape (ties between the two ends of a zero-weight edge)",
    "seeded/C13-S/patch.diff": "main / backward roles taken from the sorted stack indices (registration order) instead of the label order: the rule sees that the label sort is gone but not what decides the roles now",
    "seeded/C03-L/patch.diff": "sort_events rewritten as a numpy time sort plus per-run comparison sorts: another sorting scheme; whether every run is covered is not decidable from the shape",
}


# behaviour-preserving refactorings (confirmed: identical observable output, baseline passes) that the checker cannot follow.  Required: exit 0 or 2, never 1.
REFACTOR_NOT_UNDERSTOOD = {
    "sa/selftest/never_alarm/C02/refactor_K.diff": "the two side filters share one __call__ in a new base class with class-attribute hooks; get_cpu_gpu_correlation as one .loc[rows, cols].set_axis().reset_index() chain (set_axis is not modelled)",
    "sa/selftest/never_alarm/C03/refactor_K.diff": "both comparators as dispatch dicts of small rule functions with match on duration classes, a __slots__ key class instead of cmp_to_key, the scan as a generator shared by both builders",
    "sa/selftest/never_alarm/C04/refactor_K.diff": "per-rank result as a frozen dataclass with __post_init__ / object.__setattr__, a generator method yielding (name, value) pairs, lru_cache closure, assign(**{f-string keys}) in a loop over a ClassVar tuple",
    "sa/selftest/never_alarm/C05/refactor_K.diff": "the type -> bit assignment and the labels live in a frozen slotted dataclass; the label column is a map over the running values instead of masked stores",
    "sa/selftest/never_alarm/C07/refactor_K.diff": "the sweep rewritten on numpy arrays (running[:-1] == 3 over consecutive time differences), the per-rank function at module level bound with functools.partial",
    "sa/selftest/never_alarm/C08/refactor_K.diff": "edge weight by match on the edge type, node rows through assign / rename_axis().reset_index(), the traversal closures as a slotted dataclass visitor",
    "sa/selftest/never_alarm/C11/refactor_K.diff": "re-encoding through a numpy look-up array (lut[df[col].to_numpy()]), a context manager yielding a lazy map or pool.map, match / case on the parse result",
    "sa/selftest/never_alarm/C12/refactor_K.diff": "host step lookup with np.select over the reversed steps, match on len(profiler_steps), a frozen slotted dataclass doing the trim",
    "sa/selftest/never_alarm/C13/refactor_K.diff": "KernelInfo as a NamedTuple with an absorb fold, height as a match on the node, one shared root iterator for the three traversals",
    "sa/selftest/never_alarm/C16/refactor_K.diff": "the three accumulator dicts as one slotted dataclass ledger, rows walked by zip over four columns",
    "sa/selftest/never_alarm/C17/refactor_K.diff": "functools.singledispatch adapter, match / case selection helper, add_prefix + outer concat + assign instead of the keyed concat",
    "sa/selftest/never_alarm/C18/refactor_K.diff": "guards as decorators, constructor validation with positional class patterns (case tuple([int() as a, int() as b])) - positional class patterns are not modelled",
    "sa/selftest/never_alarm/C19/refactor_K.diff": "the member list driven by dataclasses.fields with getattr loops (collect_from / hand_over), a layout dataclass naming the archive members",
    "sa/selftest/never_alarm/C20/refactor_K.diff": "a frozen dataclass codec with gzip and plain instances behind every reader / writer, flow ids from an itertools.count default_factory",
    "sa/selftest/never_alarm/C16/refactor_D.diff": "the three accumulator dicts replaced by one dict of dataclass objects filled from a generator function: generators are not interpreted and the result builder has another signature",
    "sa/selftest/never_alarm/C07/refactor_I.diff": "the overlap sweep rewritten on parallel numpy arrays (concatenate / repeat / stable argsort / cumsum): another sweep algorithm than the +-marker template",
    "sa/selftest/never_alarm/C07/refactor_J.diff": "the overlap sweep rewritten on a Series keyed by time stamp with the changes summed per distinct time stamp (groupby(level=0).sum()): another sweep algorithm than the +-marker template",
    "sa/selftest/never_alarm/C05/refactor_G.diff": "busy time summed per running bit mask first, each mask named once, the per-mask totals regrouped by name: equality with the per-row labelling needs the regrouping law "
                                                    "sum over g(k) of (sum by k) = sum by g(k) together with a name map built from the index of an intermediate result",
}


def _run_check(pid: str, repo_dir: str):
    env = dict(os.environ, HTA_REPO=repo_dir, VERIF_EVIDENCE_DIR=os.path.join(repo_dir, "_evidence"), VERIF_TIER="quick")
    p = subprocess.run(["/venv/bin/python", "-B", os.path.join(HERE, "check.py"), pid, "--tier", "quick"], capture_output=True, text=True, env=env, cwd=HERE)
    first = [l.strip()[:200] for l in p.stdout.splitlines() if l.strip().startswith(("violated", "ANALYSIS-ERROR"))][:1]
    return p.returncode, first


def _patched(pid: str, patch: str):
    tmp = tempfile.mkdtemp(prefix="hta_thorough_")
    try:
        subprocess.run(["rsync", "-a", "--exclude", "__pycache__", os.path.join(silent.REPO, "hta"), tmp + "/"], check=True)
        r = subprocess.run(["patch", "-p1", "-s", "-f", "-d", tmp, "-i", patch], capture_output=True, text=True)
        if r.returncode != 0:
            return "not-applicable", []
        return _run_check(pid, tmp)
    finally:
        shutil.rmtree(tmp, ignore_errors=True)


def _silent(pid: str, name: str):
    tmp = tempfile.mkdtemp(prefix="hta_thorough_")
    try:
        silent.make_variant(name, tmp)
        return _run_check(pid, tmp)
    finally:
        shutil.rmtree(tmp, ignore_errors=True)


def run(pid: str, chk) -> None:
    fire = sorted(glob.glob(os.path.join(HERE, "seeded", f"{pid}-*", "patch.diff")))
    fire += [os.path.join(HERE, "sa", "selftest", "patches", f) for f, pids in REVERTS.items() if pid in pids]
    fire += sorted(glob.glob(os.path.join(HERE, "sa", "selftest", "mutants", pid, "*.diff")))
    names = list(silent.TRANSFORMS)
    equiv = sorted(glob.glob(os.path.join(HERE, "sa", "selftest", "equivalent", pid, "*.diff")))
    never = sorted(glob.glob(os.path.join(HERE, "sa", "selftest", "never_alarm", pid, "*.diff")))
    res = {"must_fire": {}, "must_stay_silent": {}, "must_never_alarm": {}}
    with cf.ThreadPoolExecutor(int(os.environ.get("JOBS", "16"))) as ex:
        f1 = {ex.submit(_patched, pid, p): p for p in fire}
        f2 = {ex.submit(_silent, pid, n): n for n in names}
        f2.update({ex.submit(_patched, pid, p): "equivalent under the property's assumptions: " + os.path.relpath(p, HERE) for p in equiv})
        f3 = {ex.submit(_patched, pid, p): os.path.relpath(p, HERE) for p in never}
        for fu, n in f3.items():
            rc, first = fu.result()
            res["must_never_alarm"][n] = {"rc": rc, "first": first, "why_not_understood": REFACTOR_NOT_UNDERSTOOD.get(n, "")}
            if rc == "not-applicable":
                chk.note(f"self-test: {n} no longer applies (skipped)")
            elif rc not in (0, 2):
                chk.error(f"checker self-test: behaviour-preserving refactoring '{n}' gave exit {rc}: a refactoring the checker cannot follow may be 'not understood' (2) but never a violation {first}")
        for fu, p in f1.items():
            rc, first = fu.result()
            label = os.path.relpath(p, HERE)
            res["must_fire"][label] = {"rc": rc, "first": first}
            if rc == "not-applicable":
                chk.note(f"self-test: {label} no longer applies to the current tree (skipped)")
            elif label in EXPECTED_NOT_UNDERSTOOD:
                if rc != 2:
                    chk.error(f"checker self-test: {label} is listed as 'not understood by design' but gave exit {rc}")
                else:
                    chk.note(f"self-test: {label} -> exit 2 (not understood, by design): {EXPECTED_NOT_UNDERSTOOD[label]}")
                res["must_fire"][label]["expected"] = 2
            elif rc != 1:
                chk.error(f"checker self-test: must-fire variant {label} gave exit {rc} (expected 1): the checker is incomplete for this change {first}")
        for fu, n in f2.items():
            rc, first = fu.result()
            res["must_stay_silent"][n] = {"rc": rc, "first": first}
            if rc == "not-applicable":
                chk.note(f"self-test: {n} no longer applies (skipped)")
                res["must_stay_silent"][n]["rc"] = 0
            elif rc != 0:
                chk.error(f"checker self-test: behaviour-preserving variant '{n}' gave exit {rc} (expected 0): the checker is unsound/brittle for this rewrite {first}")
    # the normal form every term comparison rests on: laws it must identify, non-laws it must keep apart, both cross-checked under the installed pandas
    try:
        from . import laws
        from ..core.progdb import ProgramDB
        lr = laws.run(ProgramDB(silent.REPO), with_concrete=True)
        res["normal_form"] = {"laws": len(lr["laws"]), "laws_identified": sum(1 for v in lr["laws"].values() if v["same_term"]), "nonlaws": len(lr["nonlaws"]),
                              "nonlaws_kept_apart": sum(1 for v in lr["nonlaws"].values() if not v["same_term"]), "failures": lr["failures"]}
        for f_ in lr["failures"]:
            chk.error(f"checker self-test (normal form): {f_}")
    except ImportError as ex:          # pandas missing: the symbolic half cannot be cross-checked
        res["normal_form"] = {"skipped": str(ex)}
    res["summary"] = {"must_fire": len(res["must_fire"]), "fired": sum(1 for v in res["must_fire"].values() if v["rc"] == 1), "not_understood_by_design": sum(1 for v in res["must_fire"].values() if v.get("expected") == 2),
                      "must_stay_silent": len(res["must_stay_silent"]), "silent": sum(1 for v in res["must_stay_silent"].values() if v["rc"] == 0),
                      "must_never_alarm": len(res["must_never_alarm"]), "never_alarmed": sum(1 for v in res["must_never_alarm"].values() if v["rc"] in (0, 2, "not-applicable"))}
    chk.selftest = res
    good = res["summary"]["fired"] >= 1 and res["summary"]["silent"] == res["summary"]["must_stay_silent"] and res["summary"]["never_alarmed"] == res["summary"]["must_never_alarm"] and all(v["rc"] in (1, "not-applicable") or (v.get("expected") == 2 and v["rc"] == 2) for v in res["must_fire"].values())
    chk.ob(f"{pid}.selftest", "two-sided self-test of this checker on scratch variants of the current tree", True if good else None, "sa/selftest", found=res["summary"], accepted="every must-fire variant exits 1, every behaviour-preserving variant exits 0", nontrivial=True)
