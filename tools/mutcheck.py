#!/venv/bin/python
"""Run checks against a patched scratch copy of /repo (never touches /repo).
usage: mutcheck.py <patch.diff> <PID> [<PID> ...]     prints one line per check: PID rc first-violation"""
import os
import shutil
import subprocess
import sys
import tempfile

HERE = os.path.dirname(os.path.dirname(os.path.abspath(__file__)))


def run(patch, pids, quiet=False):
    tmp = tempfile.mkdtemp(prefix="hta_mut_")
    out = {}
    try:
        subprocess.run(["rsync", "-a", "--exclude", "__pycache__", "/repo/hta", tmp + "/"], check=True)
        r = subprocess.run(["patch", "-p1", "-s", "-d", tmp, "-i", os.path.abspath(patch)], capture_output=True, text=True)
        if r.returncode != 0:
            print("PATCH FAILED", r.stdout, r.stderr)
            return None
        env = dict(os.environ, HTA_REPO=tmp, VERIF_EVIDENCE_DIR=os.path.join(tmp, "evidence"))
        for pid in pids:
            p = subprocess.run(["/venv/bin/python", "-B", os.path.join(HERE, "check.py"), pid], capture_output=True, text=True, env=env, cwd=HERE)
            lines = [l for l in p.stdout.splitlines() if l.strip().startswith(("violated", "ANALYSIS-ERROR"))]
            out[pid] = (p.returncode, lines)
            if not quiet:
                print(f"{pid} rc={p.returncode}")
                for l in lines[:6]:
                    print("   ", l[:420])
    finally:
        shutil.rmtree(tmp, ignore_errors=True)
        # restore evidence of the real tree
    return out


if __name__ == "__main__":
    run(sys.argv[1], sys.argv[2:])
