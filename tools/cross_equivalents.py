#!/venv/bin/python
"""Every behaviour-preserving refactoring (sa/selftest/equivalent, never_alarm) against EVERY check, not only the check of the property it was written for:
a refactoring of shared code must not make another property's check raise an alarm.  Prints the non-silent cells; exit 1 if any cell is a violation (rc=1).
usage: cross_equivalents.py [glob-substring]   env JOBS"""
import concurrent.futures as cf
import glob
import os
import sys

sys.path.insert(0, "/verif/tools")
import mutcheck  # noqa: E402

PIDS = [f"C{i:02d}" for i in range(1, 21)]
files = sorted(glob.glob("/verif/sa/selftest/equivalent/C*/*.diff") + glob.glob("/verif/sa/selftest/never_alarm/C*/*.diff"))
if len(sys.argv) > 1:
    files = [f for f in files if sys.argv[1] in f]


def one(f):
    own = f.split("/")[-2]
    r = mutcheck.run(f, PIDS, quiet=True)
    return f, own, r


bad = 0
with cf.ThreadPoolExecutor(int(os.environ.get("JOBS", "10"))) as ex:
    for f, own, r in ex.map(one, files):
        if r is None:
            print("/".join(f.split("/")[-2:]), "patch-failed")
            continue
        for pid, (rc, lines) in sorted(r.items()):
            expected2 = "never_alarm" in f and pid == own
            if rc == 0 or (rc == 2 and expected2):
                continue
            print("/".join(f.split("/")[-3:]), pid, f"rc={rc}", (lines[0].strip()[:220] if lines else ""), flush=True)
            if rc == 1:
                bad += 1
print("files", len(files), "violating cells", bad)
sys.exit(1 if bad else 0)
