#!/venv/bin/python
"""Confirm behaviour-preserving refactorings delivered by independent sub-agents and file them as must-stay-silent variants.

For every /tmp/refactor_out/<ID>/<V>/ (patch.diff, equiv_demo.py, notes.txt):
  1. scratch copy of /repo; equiv_demo.py on the unchanged copy -> digest 1
  2. apply patch.diff; equiv_demo.py -> digest 2; the two outputs must be byte-identical
  3. the pinned baseline (87 stable tests) must pass on the patched copy
  4. store /verif/refactors/<ID>-<V>/{patch.diff,equiv_demo.py,meta.json} and sa/selftest/equivalent/<ID>/refactor_<V>.diff
usage: confirm_refactor.py [ID ...]   env JOBS, REFACTOR_OUT, REFACTOR_RENAME="A=C,B=D" (stored variant names), NEVER_ALARM="C12-A,..." (deliveries the checker
answers 'not understood' for: filed under sa/selftest/never_alarm/ - exit 0 or 2 accepted, never 1 - instead of equivalent/)
"""
import concurrent.futures as cf
import hashlib
import json
import os
import shutil
import subprocess
import sys
import tempfile

OUT = os.environ.get("REFACTOR_OUT", "/tmp/refactor_out")
RENAME = dict(x.split("=") for x in os.environ.get("REFACTOR_RENAME", "").split(",") if "=" in x)
NEVER_ALARM = set(x for x in os.environ.get("NEVER_ALARM", "").split(",") if x)
PROPS = {json.loads(l)["id"]: json.loads(l) for l in open("/verif/properties.jsonl")}


def one(pid, v):
    src = os.path.join(OUT, pid, v)
    if not os.path.exists(os.path.join(src, "patch.diff")):
        return pid, v, "missing"
    tmp = tempfile.mkdtemp(prefix=f"refconf_{pid}{v}_")
    res = {}
    try:
        subprocess.run(["rsync", "-a", "--exclude", ".git", "--exclude", "__pycache__", "/repo/", tmp + "/"], check=True)
        env = dict(os.environ, PYTHONDONTWRITEBYTECODE="1", PYTHONHASHSEED="0")
        demo = os.path.join(src, "equiv_demo.py")
        d0 = subprocess.run(["/venv/bin/python", demo, tmp], capture_output=True, text=True, env=env, timeout=1800)
        p = subprocess.run(["patch", "-p1", "-s", "-d", tmp, "-i", os.path.join(src, "patch.diff")], capture_output=True, text=True)
        d1 = subprocess.run(["/venv/bin/python", demo, tmp], capture_output=True, text=True, env=env, timeout=1800)
        res["demo_rc"] = [d0.returncode, d1.returncode]
        res["digest_lines"] = len(d0.stdout.splitlines())
        res["identical"] = d0.stdout == d1.stdout and d0.returncode == d1.returncode and len(d0.stdout) > 0
        res["sha"] = [hashlib.sha256(d0.stdout.encode()).hexdigest()[:16], hashlib.sha256(d1.stdout.encode()).hexdigest()[:16]]
        res["patch_applies"] = p.returncode == 0
        b = subprocess.run(["/venv/bin/python", "/verif/tools/run_baseline.py", tmp], capture_output=True, text=True, timeout=1800)
        res["baseline"] = b.stdout.strip().splitlines()[:2]
        res["baseline_ok"] = b.returncode == 0
        ok = res["identical"] and res["patch_applies"] and res["baseline_ok"]
        res["confirmed"] = ok
        if ok:
            sv = RENAME.get(v, v)
            d = os.path.join("/verif/refactors", f"{pid}-{sv}")
            os.makedirs(d, exist_ok=True)
            shutil.copy(os.path.join(src, "patch.diff"), d)
            shutil.copy(demo, d)
            notes = open(os.path.join(src, "notes.txt")).read() if os.path.exists(os.path.join(src, "notes.txt")) else ""
            json.dump({"property": pid, "title": PROPS[pid]["title"], "variant": sv, "kind": "behaviour-preserving refactoring (must stay silent)",
                       "source": "independent sub-agent given only the property text and a scratch worktree", "what_was_refactored": notes.strip(),
                       "confirmed_by": "tools/confirm_refactor.py on a scratch copy of /repo",
                       "ran": {"digest_lines": res["digest_lines"], "digest_sha_before_after": res["sha"], "baseline_on_patched_copy": res["baseline"]}},
                      open(os.path.join(d, "meta.json"), "w"), indent=1)
            e = os.path.join("/verif/sa/selftest", "never_alarm" if f"{pid}-{v}" in NEVER_ALARM else "equivalent", pid)
            os.makedirs(e, exist_ok=True)
            shutil.copy(os.path.join(src, "patch.diff"), os.path.join(e, f"refactor_{sv}.diff"))
        return pid, v, res
    except Exception as ex:  # noqa
        return pid, v, f"error {ex}"
    finally:
        shutil.rmtree(tmp, ignore_errors=True)


def main():
    ids = sys.argv[1:] or sorted(os.listdir(OUT))
    jobs = [(p, v) for p in ids for v in ("A", "B") if os.path.isdir(os.path.join(OUT, p, v))]
    with cf.ThreadPoolExecutor(int(os.environ.get("JOBS", "4"))) as ex:
        for pid, v, res in ex.map(lambda a: one(*a), jobs):
            if isinstance(res, dict):
                print(pid, v, "CONFIRMED" if res["confirmed"] else "REJECTED", {k: res[k] for k in ("identical", "digest_lines", "baseline_ok", "patch_applies", "demo_rc")}, flush=True)
            else:
                print(pid, v, res, flush=True)


main()
