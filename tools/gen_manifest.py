#!/venv/bin/python
"""Regenerate MANIFEST.json from the table below (kept by hand). Usage: tools/gen_manifest.py"""
import json
import os

HERE = os.path.dirname(os.path.dirname(os.path.abspath(__file__)))
BASE = "cd /repo && /venv/bin/python -m pytest -ra -q -p no:cacheprovider --timeout=900 --continue-on-collection-errors"

NOTE = ("Trusted base: CPython ast; documented pandas/numpy/networkx API semantics for the modelled operations; the "
        "checker's own normaliser and spec tables (two-sided self-test in the thorough tier). Decides structure "
        "(necessary conditions visible in the code's shape on every path), not runtime behaviour; undecided clauses are "
        "listed in DESIGN.md section 7.")

# id -> (technique, claim text, design ref)
CLAIMS = {
 "C19": ("static agreement analysis (AST def-use): saved field set = restored field set = result-carrying attribute set; artefact name/role/index-label/node-link agreement",
         "Decides, for every program state, that save() and restore_cpgraph() agree structurally: every _CPGraphData field is saved from and restored to the like-named attribute, every attribute written by graph construction/critical_path and read by the post-construction API is restored, the three artefacts are written/read under the same names and roles with matching csv index label and node-link convention, the zip holds exactly those files, and the restoring constructor installs the unpickled graph. A dropped restore line, a new unsaved result attribute, a renamed file or label is reported by name. Pickle/CSV value fidelity is not decided.",
         "3/C19"),
}

 # (entries are added below as checks are built)
CLAIMS["C04"] = ("symbolic column-term evaluation of the pandas pipelines (global value numbering) + template matching; finite truth table for the device-row predicate; exact regex-language (DFA) comparison",
    "Decides that temporal breakdown instantiates the interval-union template on every path: sweep over rows sorted by ts, end=ts+dur, group=cumsum(ts >(=) cummax of previous ends), min/first start and max end per group; kernel_time/idle/compute/non_compute are that template's arithmetic over the merge of all device rows and of the COMPUTATION rows (so the parts sum to kernel_time by construction), device-row predicate is true exactly off stream -1 and reads only the stream, percentages are round(100*part/kernel_time,2), classification is the comm->memory->compute->other chain over the spec regular languages (DFA-equivalence), facade forwards its arguments. Each slot is a necessary condition; numeric results and pandas semantics themselves are not decided.",
    "3/C04")

CLAIMS["C07"] = ("symbolic column-term evaluation + comparison with a reference sweep template evaluated by the same evaluator (translation-validation style); marker-table extraction; DFA regex comparison",
    "Decides that the overlap computation instantiates the two-marker sweep template: both operands are merge_kernel_intervals of the device rows of their kernel type, markers +a/-a and +b/-b with a, b, a+b non-zero, time-sorted concat with a fresh index, running = cumsum, overlap rows running == a+b, numerator sum(next_time - time), denominator the measure of the MERGED communication kernels, percentage round(100*ratio,2); plus interval-union template, classification chain and facade binding. Template conformance (necessary conditions), not the numeric value.",
    "3/C07")
CLAIMS["C06"] = ("symbolic column-term evaluation; complete decision-table extraction of the masked assignments over the atoms (launch_ts > prev_end, gap < threshold); join/suffix agreement; call-site argument binding",
    "Decides: per stream the rows are exactly those of the stream, ts-sorted; gap = ts - shift(+1)(ts+dur); the idle category as a complete 4-row decision table equals {p->HOST_WAIT, !p&q->KERNEL_WAIT, !p&!q->OTHER} with strict comparisons; idle_time = per-category sum of gaps and ratio = idle_time/total; launch time = ts of the event whose id is the kernel's index_correlation via a left join against the whole trace frame with suffix agreement; device/category selection; enum values written = values mapped back to names; all 7 facade arguments bound to like-named parameters. Non-overlap within a stream is an input assumption.",
    "3/C06")

CLAIMS["C05"] = ("symbolic column-term evaluation; slot checks of the bit-sweep template; aggregator provenance algebra on every path; decision-table extraction of the relabelling masks; call-site binding",
    "Decides the bit-sweep template of the kernel-type table (per type the merged intervals of that type's device rows, markers +v/-v with distinct powers of two, time-sorted cumsum, next_time = shift(-1), rows kept iff running > 0, labels by u & bit tests for u > 0, sum of segment durations per label, percentage = sum/total*100) and, for the per-kernel table on every path with and without allow-list, the provenance rule: sum/max/min/mean/std of each reported row are aggregated directly from the kernels' dur grouped by the final label (own name or 'others'), the relabelling is the complete table others iff not kept and (position >= num_kernels or beyond the duration quantile) on the sum-descending frame with a fresh index, under the guard rows > num_kernels; type list and argument bindings. Structure, not numbers.",
    "3/C05")

CLAIMS["C14"] = ("symbolic column-term evaluation; event-log rules over the sort/concat/join/filter operations (tie-order accept set, no lossy row removal after the sweep); inverse-arithmetic agreement (- min_ts / + min_ts); whole-function evaluation of the counters wrapper and of the per-rank wrappers on three abstract ranks",
    "Decides the +1/-1 sweep template of the queue-length series (launch-name table & index_correlation > 0; activities = device rows whose correlation is among the launches'; launch rows take stream/pid/tid from their activity by a left join on correlation; sort by ts with launches before activities at equal timestamps - secondary key on the marker descending or a stable sort over the launches-first concat; per-stream cumsum; every row output or de-duplicated keeping the last row of an instant), the bandwidth template (dur 0 -> 1 before ts+dur, negated bandwidth at the end row, ts-sorted per-name cumsum), and that counter events add back exactly the attribute _align_all_ranks subtracted, with phase C and args {counter: value}; wrapper column names agree. Structure, not values.",
    "3/C14")
CLAIMS["C15"] = ("symbolic column-term evaluation over two symbolic ranks; name-table extraction; truth tables of the side predicates; call-site binding",
    "Decides per rank, with and without memory events: correlation ids are collected from that rank's own rows whose name is the id of a launch call (kernel launches, plus memcpy/memset launches iff requested; ids looked up with default None and not filtered by truthiness), host side = stream == -1 and device side = stream != -1 both restricted to that set, inner join on correlation, launch_delay = max(ts_device - ts_host - dur_host, 0), cpu_duration/gpu_duration = host/device dur, the four documented columns; all facade arguments bound to like-named parameters.",
    "3/C15")

CLAIMS["C02"] = ("symbolic column-term evaluation on every path with the side filters inlined; complete decision tables of the side predicates over abstract (stream, correlation, name) cases; event-log rules for the two label-addressed stores; whole-program who-may-write scan",
    "Decides: host/device side predicates are complementary on all 18 abstract cases (gpu = (stream>=0 & correlation>=0) | Event/Context Sync, cpu = not gpu, among rows with correlation != -1); link frame = inner join on correlation; exactly two stores index_x<-index_y and index_y<-index_x addressed by event id with position-based values; sentinel initialisation min(correlation,0) precedes them on every path with a correlation column (try/except and early-return paths included); no other function in hta stores into index_correlation; get_cpu_gpu_correlation selects stream>0 & index_correlation>0 and names gpu_index/cpu_index as its consumer reads them. Uniqueness of ids is an input assumption.",
    "3/C02")
CLAIMS["C12"] = ("symbolic evaluation incl. the Python-level step loop (path merging into a decision term); truth tables; typestate rule end = ts + dur across the load path; path enumeration of the step-count guard",
    "Decides: host rows (stream<0) get the step with step.ts <= ts < step.ts+step.dur read from array positions 0/1/3 that agree with the step frame's column order, default -1; device rows (stream>0) inherit the host-assigned value of row index_correlation iff index_correlation > 0 else -1, after the host store; per-rank trim keeps host-side rows with ts < max(step ts) or (include_last) ts <= max(step end) and device-side rows inner-joined on the kept host rows' correlation; no trim when the table has fewer than two step names; align precedes trim, include_last is forwarded, and end = ts + dur holds after the time shift (typestate).",
    "3/C12")

CLAIMS["C01"] = ("symbolic evaluation of the JSON back end on all 96 paths (row-set predicate, id column, encodings as terms); rounding template; two-rank shift term; end = ts + dur typestate; YAML spec data check; AST agreement rules",
    "Decides on every path of the JSON back end: returned rows = notnull(dur) & notnull(cat) minus cat == 'Trace' and nothing else; id column = position in the event list; ts=ceil(ts), end=floor(un-rounded ts+dur), dur=end-ts with no further adjustment; cat/name encoded through the id map of the returned local table, which was fed both columns' symbols; stream = int(stream) else -1; stream/correlation arg specs name==raw_name, default -1; one shift = min over all ranks of the per-rank min ts, stored in min_ts, subtracted from every rank and added back by the only un-shifting consumer; end = ts + dur at the exits of parse-only and full load; load_traces indexes by the id column with drop=False after align/trim. pandas' JSON decoding and the ijson back ends are not decided.",
    "3/C01")

CLAIMS["C17"] = ("symbolic evaluation of the summary/comparison pipelines (multi-index flattening and column-wise concat modelled); finite decision table of the five class masks over (control, test) sign patterns; call-argument wiring",
    "Decides: event selection = iteration isin(requested) & device predicate (CPU stream==-1, GPU stream!=-1, ALL none) on the requested rank's frame; summary = count and sum of dur per (cat,name) renamed counts/total_duration and decoded through the table; comparison regroups by the chosen name column with sum, outer column-wise concat of control and test, fillna 0, differences test - control, each trace selected with its own rank/iteration arguments; the five masks evaluated on ten consistent count patterns are pairwise disjoint, exhaustive, and map identical inputs to 'unchanged' only.",
    "3/C17")
CLAIMS["C18"] = ("effect analysis over the evaluator's event log (purity, statelessness), shape analysis of returned frames on every path (selection-only), predicate terms / decision tables per filter, row-locality classification, evaluation of CompositeFilter on opaque members, AST rule for the dtype idiom",
    "Decides for all 13 filter classes, with and without a symbol table, on every path: no mutation of the input frame or alias; no attribute store on the filter inside __call__ (no call-to-call state); every returned frame is the input, a mask selection of it built from its own rows, or pd.DataFrame() on a no-match path - never re-ordered, re-indexed, or extended; each filter's selection predicate equals the documented one (membership, full containment in the time range, anchored str.match, ids of matching symbols of the given table, device/host side as 18-case tables, memcpy name&cat); only the iteration-index filters depend on the whole frame and they sort the distinct iterations; CompositeFilter threads the frame through its members in order; the string-column test accepts every pandas string dtype.",
    "3/C18")

CLAIMS["C03"] = ("finite-domain abstract interpretation: symbolic path enumeration of both comparators, observation-discipline check, complete decision tables on canonical representatives of all equal-time endpoint pairs/triples (quadruples in the thorough tier), order-law checking; AST discipline rules for both builders; encoding agreement",
    "Decides that both endpoint comparators are total and antisymmetric on every realisable equal-time pair (CLOSE/CLOSE may tie), satisfy the property's tie rules (closing before opening for positive spans, longer span opens first, identical spans in file order, shorter span closes first, a zero-duration event opens before it closes and never separates a positive endpoint's two sides), order different instants by time, agree with each other on every tree-relevant pair, and are free of 3-cycles except for the recorded known finding (zero-duration endpoint, positive CLOSE, positive OPEN at one instant - both comparators); that both builders sort with the analysed comparator before a scan that pushes exactly once with parent = stack top (root when empty) on OPEN and pops exactly once, unconditionally but for emptiness, on CLOSE; and that array layout / marker constants / Event field order agree between writer, comparator and scan. Given these, sorted() yields the bracket sequence of the nesting (paper argument); sorted() itself is trusted.",
    "3/C03")

CLAIMS["C08"] = ("symbolic evaluation of node creation; complete weight decision table (5 types x zero_weight) by path enumeration; def-use role typing of all 8 edge-creation sites against a per-type table; dominance rule for validation; API-contract rule",
    "Decides the structural clauses only: every selected event yields exactly a (ts, start) and a (ts+dur, end) node whose id is its position in the time-sorted node frame, with CPNode fields and the two maps built consistently; weight = 0 for dependency/sync types or zero_weight and dest.ts - src.ts otherwise, depending on nothing else; each creation site joins the node roles its edge type stands for (launch START -> its kernel START via row.index_correlation; previous kernel END under the same stream key -> kernel START; kernel END -> host call END / kernel START; previous top-level END -> START; span and nesting edges), stream syncs wait only for their own stream; validation precedes and gates the longest-path call; no pandas call on the construction path that the installed API rejects. Acyclicity / forward-in-time / success for every causally consistent trace are NOT decided (trace-dependent).",
    "3/C08")
CLAIMS["C09"] = ("agreement rules (attribute key written = key maximised = only key validation may reset, and only to 0 under the negative-weight guard), derivation patterns of the event/edge sets, reset-before-accumulate ordering rule, validation dominance",
    "Decides the structural clauses: 'weight' written by _add_edge is what dag_longest_path maximises on the graph itself; validation never rewrites weights except 0 under the negative-weight guard (so a re-weighted copy is not silently reset); critical events come from all path nodes; critical edges are the 'object' of consecutive node pairs; the edge set is emptied after the new path is known and before accumulation on every call; validation gates the computation. Optimality itself is delegated to networkx (trusted base) and the makespan bound is not decided.",
    "3/C09")
CLAIMS["C10"] = ("decision-table extraction by symbolic path enumeration (_attribute_edge: 5 types x 4 start/end cases; bound_by: type x host/device x communication), enum/string agreement, def-use pairing rule for the recorded parent, symbolic evaluation of the breakdown pipeline with an event-log rule against row-changing operations",
    "Decides: the attribution table (non-span types unattributed; kernel-to-kernel delay -> preceding kernel; (S,S),(S,E) -> src, (E,E) -> dest, (E,S) -> recorded parent), the parent is recorded whenever last_node moves and -1 is used on streams; bound_by's full table and that its literals are exactly the enum values of the four non-span types; breakdown has one record per critical edge with duration = weight, type = enum value, event_idx = attribution, left-joined on the unique event id with no later row removal/merging; summary = per-class share * 100. Span containment of the attributed event is not decided.",
    "3/C10")

CLAIMS["C11"] = ("whole-program effect/alias analysis for the two symbol-table containers (who-may-write, incl. aliases from getters), structural rule for add_symbols, composition and ordering rules for the re-encoding and the worker pool, id-opacity scan with a frozen exception table",
    "Decides the necessary structural conditions: only __init__/add_symbols/clone/create_from_symbol_id_map write sym_table or sym_index anywhere in hta, also through any alias handed out by the getters; add_symbols is append-only under the membership guard with the id taken before the append and both stores in the guarded block; clone copies, create_from_symbol_id_map derives the index from the table it built; re-encoding is global_map[local_table[old]] with the same rank's local table and the global map read after all additions, with no cast back to the narrow local dtype; results are collected only with pool.map and zipped with the rank list the inputs were built from, ranks sorted; no ordering/arithmetic use of an encoded name/cat column outside two justified sites where the column is decoded. Multiprocessing's delivery guarantees and hash-seed effects inside pandas are not decided.",
    "3/C11")

CLAIMS["C13"] = ("symbolic evaluation of the three tree recurrences with the recursive call abstracted; scatter-term check of the defaults; path-sensitive evaluation of the backward-parent search into a decision table (annotation present x ProfilerStep present -> parents); AST rule for the link direction; end = ts + dur typestate",
    "Decides: depth = parent's + 1 with roots entered at -2 and children visited with the node's new depth; height = 0 for device nodes, 1 for childless host nodes, else max over children of child+1; kernel info = (1, dur, end-ts, ts, end) at a device leaf and (sum, sum, max end - min start, min, max) over ALL children at a host node, written back to the like-meaning stack columns; the eight defaults and the (0,0,-1,-1) normalisation of rows with num_kernels <= 0; device activity attached beneath its launch call as a GPU node; backward attachment only with exactly one main and one bwd stack, candidates '## backward ##' then 'ProfilerStep#' chosen by the events present on this rank's main thread, re-parenting the root's children with ts >= parent.ts and end <= parent.end; end coherent after the time shift. The tree itself is C03.",
    "3/C13")
CLAIMS["C16"] = ("symbolic evaluation of root selection / pattern accumulation (event log of dict stores); interprocedural abstract evaluation of the descendants query on a two-node abstract tree with the call site's actual arguments; dependency clause on the call-stack tie rules (decision table); evaluation of the result-table builder (per-pattern column terms, sort key)",
    "Decides: candidates = name ids of symbols containing operator_name; roots = candidates at the minimum depth over ALL candidates with num_kernels >= min_pattern_len; per root the stack of its own id without ancestors, device rows by start time, pattern = (root name,) + their names, count += 1, durations += (root kernel_dur_sum, root dur) with positional unpacking agreeing with the projected columns; result ordered by count descending; the device child of a host root is retained by get_stack_of_node -> get_descendants -> get_paths_to_leaves with the arguments actually passed; and the endpoint tie rules that decide which operator owns an event at a shared instant. Correctness of the whole tree is C03/C13.",
    "3/C16")
CLAIMS["C20"] = ("effect/alias analysis of the raw trace dictionaries with a mutation whitelist; freshness rule for the reader; AST pairing rules of the overlay; sibling cross-check of the compression convention; regex/separator agreement",
    "Decides: every mutation site on an object derived from the parsed source file in the writer paths is on the whitelist (append/extend traceEvents, args.critical marker, distributedInfo rank, replacement only under only_show_critical_events) and the object written is the object read; the reader returns a fresh parse on every call (no cache to leak earlier mutations); markers are set for positions in critical_path_events_set, flow pairs are built per critical edge from (begin node, its event) / (end node, its event) with one id per edge on the events' pid/tid, the zero-weight filter applies to the show-all view only; every reader and writer chooses gzip by the suffix and output names keep the suffix; the rank regex matches what every json.dump(s) on the write path produces.",
    "3/C20")

STATELESS = (" Also decides the effect clauses shared by the analyzer properties (sa/specs/discipline.py): no function of the analyzer module stores into a module- or class-level container, "
             "none modifies the caller's Trace object graph through a parameter, an alias or a shallow copy, no per-rank loop latches a value computed from the first rank's data, "
             "and memoising decorators are limited to a confirmed table.")
# additions of round 3 (appended to the claim text)
EXTRA = {
 "C01": " Also: a rank's frame and metadata come from THAT rank's file (pool inputs and result pairing built from the same rank list; sequential and single-rank paths store under the rank whose file was parsed).",
 "C02": " Also: the links written at parse time survive the only later row removal - the per-rank trim keeps a device activity iff its launch call is kept, and its host side / device side are complementary on a 27-row abstract grid including the synchronisation names.",
 "C04": STATELESS + " The interval-union instantiation read out of the code is additionally validated against a brute-force union on every family of <= 3 (thorough: <= 4) small integer intervals by a concrete term interpreter (template validation; the repository code is not run).",
 "C05": STATELESS, "C06": STATELESS, "C08": STATELESS, "C10": STATELESS, "C15": STATELESS, "C17": STATELESS,
 "C07": STATELESS + " Thorough tier: the reference sweep (the checker's own pandas text) is validated against the brute-force overlap ratio on 5084 small cases.",
 "C09": STATELESS + " Also: the longest-path search ranges over every node (no restricted topo_order).",
 "C11": " Also: cached Series views of the table are rebuilt unless the append-only table's length equals the view's length and are read only after the refresh; the per-file encoding hands out ids read from the table's own id map; the rank/file association of the worker pool.",
 "C12": " Also: host side and device side of the trim are complementary on a 27-row abstract grid.",
 "C13": " Also: typestate build thread trees -> link threads -> publish node attributes -> normalise, with tree mutators found through the call graph; every derived attribute is recomputed with the caller's scope flag before publication.",
 "C14": STATELESS + " Also: the frame reaching convert_time_series_to_events carries the stream under the column 'id'.",
 "C16": STATELESS + " Also: the stack columns the analysis selects operators by are published after the threads' trees were linked.",
 "C19": " Also: the pickled classes (CPNode, CPEdge, _CPGraphData) use default pickling - a hook that drops state is a violation.",
 "C20": " Also: the rank update sets the rank field and creates the distributedInfo block only when it is absent.",
}
for _k, _v in EXTRA.items():
    CLAIMS[_k] = (CLAIMS[_k][0], CLAIMS[_k][1] + _v, CLAIMS[_k][2])

# additions of round 4
EXTRA4 = {
 "C01": " Also: the load path removes rows only in the trailing-step trim (rules shared with C12, incl. the fewer-than-two-steps guard) and the aligned time columns keep a full-width dtype.",
 "C02": " Also: every pair of the join is written (the link frame is not filtered between the join and the two stores); the trim applies no time condition of its own to the device side.",
 "C03": " Also: no early exit in front of the scan that depends on the number of events (other than none); the published parent column takes the correlation link for device rows only.",
 "C04": " compute_time is decided on every path of the per-rank function.",
 "C05": " Per-rank loops are independent (no container filled by one rank's iteration is read by a later one).",
 "C06": " A facade default is never resolved from a single rank's trace.",
 "C08": " Also: the aligned time columns keep a full-width dtype; a memoised parameterless reader of an option is a violation.",
 "C09": " The edge of every consecutive pair of path nodes is collected unconditionally.",
 "C10": " Row-wise classification functions are row-local; the symbol decoder keeps no module-level state.",
 "C11": " No function of the symbol-table module keeps module- or class-level state.",
 "C12": " Later rewrites of the iteration column keep every value (no narrowing cast).",
 "C13": " Also: stack selection is rank-scoped; a re-parenting move updates parent, new parent's children and every old parent's children.",
 "C14": " Every series row becomes exactly one counter event.",
 "C15": " The launch-name set is extracted also through the shared launch query.",
 "C17": " Summary columns stay signed and full-width; default rank / iteration are the numerically smallest.",
 "C19": " The pickled payload is not edited between creation and dump, nor between load and installation; recomputation on a restored graph rebuilds the edge set.",
}
EXTRA7 = {
 "C01": " The uniform shift is decided on every path of _align_all_ranks.",
 "C02": " Sets of symbol ids defined by a predicate over the symbol strings are decided on representatives incl. near-miss names.",
 "C03": " The event filter of the builder behind the critical path is optional, None by default and forwarded unchanged; every host row of a thread (stream test alone) enters the stack of the other builder.",
 "C05": " A result table the evaluator cannot read is reported as not understood, never skipped.",
 "C08": " Threads are split by (pid, tid) in the builder behind the critical path (clause shared with C03).",
 "C09": " Who-may-write: the members that report the path are written by the constructor, critical_path() and restore only (aliases and in-place operators included).",
 "C10": " bound_by reads the edge type, the stream and the kernel name only.",
 "C11": " No analyzer keeps a table in a module- or class-level container (ids of one trace never meet another trace); the alignment shift does not depend on the order of the ranks.",
 "C13": " The leaf test is membership of the id, not a test on the activity's values; main / bwd thread labels as a decision table; every host row enters the stack.",
 "C14": " The bandwidth sweep groups by the copy type (not the raw id) on every path; the stored shift has one writer.",
 "C16": " Thread labels and completeness of the host rows (shared with C13 / C03).",
 "C17": " LabeledTrace parses the trace files itself on every construction path and never trims.",
 "C18": " Constructors of the value-list filters keep exactly the given values.",
 "C19": " setattr/getattr copies with literal names are read like attribute copies.",
 "C20": " Readers return the decoded JSON object unmodified.",
}
for _k, _v in EXTRA4.items():
    CLAIMS[_k] = (CLAIMS[_k][0], CLAIMS[_k][1] + _v, CLAIMS[_k][2])
EXTRA8 = {
 "C03": " No loop-carried offset into the stacks is advanced only after its loop.",
 "C04": " compute_time is defined for an empty computation selection (no positional row read).",
 "C08": " The per-stream previous-kernel record advances with every span; host categories cpu_op / cuda_runtime / cuda_driver get nodes (the query is evaluated).",
 "C09": " critical_path consults only the graph's weight attribute.",
 "C11": " No filter __call__ stores on self.",
 "C13": " Whole-graph walks start at the per-thread roots only.",
 "C14": " Copy types decided on representative names; the conversion leaves its series argument untouched.",
 "C17": " shorten_name decided on representative names.",
 "C19": " The breakdown decodes names on every call.",
 "C20": " The overlay is decided on the file written for a small abstract graph.",
 "C06": " Facade binding decided by evaluating the wrapper.",
}
for _k, _v in EXTRA8.items():
    CLAIMS[_k] = (CLAIMS[_k][0], CLAIMS[_k][1] + _v, CLAIMS[_k][2])
# rules re-founded on abstract runs after the fourth refactoring round (text additions; the technique fields are patched below)
EXTRA9 = {
 "C03": " The stack scan of both builders is decided by abstract runs on every well-nested endpoint sequence of up to 4 events.",
 "C08": " _validate_graph is decided by abstract runs on one-edge graphs (negative weight, same-stream sync edge, cycle, sound edge).",
 "C09": " The validation clause is the one decided for C08 by abstract runs of _validate_graph.",
 "C10": " The class of a span edge does not depend on name classifiers other than the communication test.",
 "C13": " The re-parenting move, the stack linking and the kernel links are decided on the evaluated final state (small concrete node maps / symbolic frames).",
 "C14": " The +bandwidth step sits at the copy's start and the -bandwidth step at its end (pairs, also for the melted form).",
 "C18": " The decoded-column choice is decided by abstract runs on frames with known columns.",
}
for _k, _v in EXTRA9.items():
    CLAIMS[_k] = (CLAIMS[_k][0], CLAIMS[_k][1] + _v, CLAIMS[_k][2])
EXTRA10 = {
 "C03": " The parent column is stored on every path of the per-rank publication loop.",
 "C05": " Every device kernel of a type enters the per-kernel statistics (no further row condition); no generator / lambda reading a loop-bound variable is kept beyond its iteration.",
 "C09": " The three result members are decided on the final state of an abstract run of critical_path() on a small concrete graph (path, events of all its nodes incl. event 0, exactly the consecutive edge objects).",
 "C11": " In-place decoding expands exactly the ids 0 <= id < len(table); combining tables keeps the first table's ids and appends in table order (no id from the walk order of a set of strings).",
 "C12": " The links the device rule reads are the mutual links decided for C02.",
 "C13": " Depth and height are also decided by abstract runs on a small concrete tree with a device activity below two host levels.",
 "C15": " The correlation ids are not filtered by their value (id 0 is valid).",
 "C18": " A NameFilter built for the decoded column and used with a table matches ids against the id column; the side grids give a sync name the id 0.",
 "C19": " What critical_path() and its helpers read must be restored (the path is re-run on a restored graph).",
 "C20": " The flow pairs are the same with and without only_show_critical_events.",
}
for _k, _v in EXTRA10.items():
    CLAIMS[_k] = (CLAIMS[_k][0], CLAIMS[_k][1] + _v, CLAIMS[_k][2])
CLAIMS["C09"] = (CLAIMS["C09"][0] + ", abstract run of critical_path() on a small concrete graph (final state of the result members)", CLAIMS["C09"][1], CLAIMS["C09"][2])
# after the fifth refactoring round
EXTRA11 = {
 "C03": " The scan loop is found by its edge calls when the stack lives in a state object.",
 "C05": " The sweep boundaries are compared piece by piece ((time, marker) pairs), whether built by melt + replace or from concatenated frames.",
 "C13": " The stack keeps its root while the root exists; depth / height recurrences defer to the abstract run for other walk protocols.",
 "C20": " The overlay option table (show_all_edges x only_show_critical_events) is decided on the abstract graph; the opener choice of readers / writers by abstract runs on a .json and a .json.gz path.",
 "C18": " IterationIndexFilter positions are decided by abstract runs on given lists of distinct iterations.",
 "C19": " The artefact agreement is decided by abstract runs of save() and restore_cpgraph() with every file operation hooked (names, modes, archive members, extraction before the first read, members put back).",
}
for _k, _v in EXTRA11.items():
    CLAIMS[_k] = (CLAIMS[_k][0], CLAIMS[_k][1] + _v, CLAIMS[_k][2])
CLAIMS["C19"] = (CLAIMS["C19"][0] + "; abstract runs of save() / restore_cpgraph() with hooked file operations (effect log of writes and reads)", CLAIMS["C19"][1], CLAIMS["C19"][2])
TECH9 = {
 "C03": ("AST discipline rules for both builders", "abstract runs of the stack scan of both builders on all well-nested endpoint sequences of up to 4 events (AST discipline rules as diagnostics)"),
 "C08": ("dominance rule for validation", "dominance rule for validation plus abstract runs of _validate_graph on one-edge graphs"),
 "C13": ("AST rule for the link direction", "evaluated rules for the link direction, the re-parenting move (abstract runs on concrete node maps) and the stack linking"),
 "C18": ("AST rule for the dtype idiom", "abstract runs of the decoded-column choice, AST rule for the dtype idiom"),
}
for _k, (_a, _b) in TECH9.items():
    assert _a in CLAIMS[_k][0], (_k, _a)
    CLAIMS[_k] = (CLAIMS[_k][0].replace(_a, _b), CLAIMS[_k][1], CLAIMS[_k][2])
for _k, _v in EXTRA7.items():
    CLAIMS[_k] = (CLAIMS[_k][0], CLAIMS[_k][1] + _v, CLAIMS[_k][2])

# after seeding round 11 / refactoring round 6
EXTRA12 = {
 "C03": " The comparator sort reaches the scan on every path (a branch that hands the scan an array ordered some other way is not understood). The scan's abstract runs see the node map _add_edge leaves behind and are repeated with the closes of directly nested spans exchanged (identical spans may close in either order); thorough tier: all 196 well-nested sequences of up to six events.",
 "C05": " Thorough tier: the reference bit sweep itself is validated under pandas against the brute-force exclusive-combination measure on 18000 (family triple, tie order) cases.",
 "C09": " Validation leaves a re-weighted 'weight' attribute as it found it (abstract runs on a re-weighted one-edge graph). A second critical_path() on the same object after the graph changed reports the new path only (abstract run: no memo, no early return, edge set rebuilt); validation hooked to fail never reaches the search (abstract run, shared with C08); the shape rules defer to these runs. The result members are not class-level mutable defaults.",
 "C08": " critical_path() with validation hooked to fail never reaches the search and reports no success (abstract run). The two window selections (host events, device activities through their launch call) use identical comparison operators, whether written as query strings or as boolean masks. Every thread's call-stack walk starts from a fresh traversal state (no state object written by the walk is shared across the loop over the threads).",
 "C04": " Whatever the algorithm, merge_kernel_intervals computes the merged set from every row of its input (callers take the span of the merged set for the span of the input).",
 "C10": " One realisable cell of the bound_by column's table in another class decides (a kernel-to-kernel delay on a host stream is not a realisable state).",
 "C11": " add_symbols is decided by an abstract run on a concrete table (known symbols keep their ids; a new symbol repeated within one call is appended once).",
 "C13": " The stack_index of a mapping row is the position of the thread's stack in self.call_stacks, the list shared by all ranks.",
 "C14": " The sweep sort is the last sort in front of the per-stream regrouping; a stable sort that falls back to the row index at equal timestamps is a tie-order violation. Thorough tier: the reference queue / bandwidth sweeps are validated under pandas against brute-force step functions (ties, zero-length copies).",
 "C15": " Correlation ids kept in a set created in front of the rank loop and only ever updated are ids of an earlier rank.",
 "C17": " No memoised result is modified in place by its consumer (two-site rule: a method handing out the object it keeps on self plus a caller that stores into the result).",
 "C12": " The per-rank trim has no data-dependent way out (no path hands the rank's frame back untouched).",
 "C18": " CompositeFilter: on every explored path each later member is applied to the running frame, never to the caller's frame.",
 "C19": " restore_cpgraph extracts EVERY member of the archive also when the files of an earlier extraction (same names, same sizes) are still on disk (second disk state of the abstract run).",
}
for _k, _v in EXTRA12.items():
    CLAIMS[_k] = (CLAIMS[_k][0], CLAIMS[_k][1] + _v, CLAIMS[_k][2])
CLAIMS["C11"] = (CLAIMS["C11"][0] + "; abstract run of add_symbols on a concrete table", CLAIMS["C11"][1], CLAIMS["C11"][2])

REASON_WIP = "checker under construction in this session (see DESIGN.md section 3); not claimed until its check is committed"


def main():
    props = [json.loads(l) for l in open(os.path.join(HERE, "properties.jsonl"))]
    checks, na = [], []
    for p in props:
        pid = p["id"]
        if pid in CLAIMS and os.path.exists(os.path.join(HERE, "sa", "props", pid.lower() + ".py")):
            tech, text, ref = CLAIMS[pid]
            checks.append({
                "property_id": pid,
                "quick_cmd": f"/venv/bin/python -B check.py {pid} --tier quick",
                "thorough_cmd": f"/venv/bin/python -B check.py {pid} --tier thorough",
                "evidence_file": f"/verif/evidence/{pid}.json",
                "replay_cmd_template": "/venv/bin/python -B check.py --replay {path}",
                "engine": "sa",
                "level_claimed": {"category": "other", "text": text, "design_ref": f"DESIGN.md section {ref}"},
                "level_note": NOTE,
                "technique": tech,
            })
        else:
            na.append({"property_id": pid, "reason": REASON_WIP})
    man = {
        "version": 1,
        "setup_cmd": "true",
        "hooks": {"guard": "HTA_VERIF", "enable": "none needed: static analysis reads /repo's source; nothing in /repo is instrumented",
                  "baseline_off_cmd": BASE, "source_commits": [], "add_only": True},
        "engines": [{"name": "sa", "path": "/verif/sa", "serves_properties": [c["property_id"] for c in checks],
                     "kind_free_text": "repository-specific static analysis over Python ast: program database, def-use/agreement rules, symbolic column-term evaluator for pandas pipelines, finite-domain abstract interpreter (decision tables), effect/alias analysis"}],
        "checks": checks,
        "not_applicable": na,
        "notes": "All checks are static (ast only; hta is never imported or run). exit 0 pass, 1 VIOLATION, 2 ANALYSIS-ERROR (construct not understood / anchor vanished / instance floor missed). Repairs of genuine defects are the seven fix: commits in /repo listed in known_findings.json.",
    }
    json.dump(man, open(os.path.join(HERE, "MANIFEST.json"), "w"), indent=1)
    print(f"checks={len(checks)} not_applicable={len(na)}")


main()
