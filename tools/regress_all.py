#!/venv/bin/python
"""Regression over every stored variant: seeded changes and mutants must answer 1 (or 2 = not understood), equivalent variants 0, never-alarm variants 0 or 2.
usage: tools/regress_all.py C01 C02 ...   (about 10 minutes for all 20 properties, 14 threads; scratch copies under a fresh temp dir, removed afterwards)"""
import sys, glob, json, concurrent.futures as cf
sys.path.insert(0,'/verif/tools'); import mutcheck
pids=sys.argv[1:]
jobs=[]
for pid in pids:
    for f in sorted(glob.glob(f'/verif/seeded/{pid}-*/patch.diff')): jobs.append((pid,f,'seeded'))
    for f in sorted(glob.glob(f'/verif/sa/selftest/equivalent/{pid}/*.diff')): jobs.append((pid,f,'equiv'))
    for f in sorted(glob.glob(f'/verif/sa/selftest/never_alarm/{pid}/*.diff')): jobs.append((pid,f,'never'))
    for f in sorted(glob.glob(f'/verif/sa/selftest/mutants/{pid}/*.diff')): jobs.append((pid,f,'mutant'))
sys.path.insert(0, '/verif')
from sa.selftest.thorough import EXPECTED_NOT_UNDERSTOOD as _ENU          # the same expectation the thorough tier applies: listed -> 2, every other seeded change / mutant -> 1
def _want(pid, f, k):
    if k in ('seeded', 'mutant'):
        lab = 'seeded/' + f.split('/seeded/')[1] if '/seeded/' in f else None
        return (2,) if lab in _ENU else (1,)
    return (0,) if k == 'equiv' else (0, 2)
def one(j):
    pid,f,k=j; r=mutcheck.run(f,[pid],quiet=True); return j, (r[pid] if r else ('patch-failed',[]))
bad=0
with cf.ThreadPoolExecutor(14) as ex:
    for (pid,f,k),(rc,lines) in ex.map(one, jobs):
        ok = rc in _want(pid, f, k)
        tag = '' if ok else '   <<<<<< UNEXPECTED'
        if k in ('seeded','mutant') and rc==2: tag+=' (not understood)'
        if tag: print(k, '/'.join(f.split('/')[-2:]), rc, tag, (lines[0][:160] if lines else ''))
        bad += not ok
print('jobs',len(jobs),'unexpected',bad)
