#!/venv/bin/python
"""Generate single-point must-fire mutants (one property-breaking edit each) as unified diffs under sa/selftest/mutants/<PID>/.
Each entry: (property, name, file, old text (must occur exactly once), new text, why it breaks the property).
The diffs are committed; the thorough tier applies them to a scratch copy of the current tree and expects exit 1."""
import difflib
import json
import os
import sys

HERE = os.path.dirname(os.path.dirname(os.path.abspath(__file__)))
REPO = "/repo"
U = "hta/utils/utils.py"
BA = "hta/analyzers/breakdown_analysis.py"
TR = "hta/common/trace.py"
TP = "hta/common/trace_parser.py"
TF = "hta/common/trace_filter.py"
CP = "hta/analyzers/critical_path_analysis.py"
TC = "hta/analyzers/trace_counters.py"
CK = "hta/analyzers/cuda_kernel_analysis.py"
CA = "hta/analyzers/communication_analysis.py"
TD = "hta/trace_diff.py"
CS = "hta/common/trace_call_stack.py"
OS_ = "hta/common/call_stack.py"
CG = "hta/common/trace_call_graph.py"
ST = "hta/common/trace_symbol_table.py"
FI = "hta/common/trace_file.py"
TA = "hta/trace_analysis.py"

# Deliberately NOT in the table (equivalent under the properties' input assumptions, so a check must stay silent on them - verified):
#   C10 bound_by `stream < 0` -> `<= 0`, C12 host mask `stream.lt(0)` -> `.le(0)` (device stream ids are positive, stream 0 never occurs),
#   C17 'added' mask `test.gt(0)` -> `.ge(0)` (a name with zero count in both traces has no row).
M = [
 # ---- C01
 ("C01", "dropna_subset_wider", TP, 'df.dropna(axis=0, subset=["dur", "cat"], inplace=True)', 'df.dropna(axis=0, subset=["dur", "cat", "args"], inplace=True)', "complete events without args are dropped"),
 ("C01", "trace_span_kept", TP, '    df.drop(df[df["cat"] == "Trace"].index, inplace=True)\n', '', "the profiler's own Trace span is loaded as an event"),
 ("C01", "round_ts_floor", TP, 'df["ts"] = df[~df["ts"].isnull()]["ts"].apply(lambda x: math.ceil(x))', 'df["ts"] = df[~df["ts"].isnull()]["ts"].apply(lambda x: math.floor(x))', "start rounded outward"),
 ("C01", "round_end_ceil", TP, 'df["end"] = df[~df["end"].isnull()]["end"].apply(lambda x: math.floor(x))', 'df["end"] = df[~df["end"].isnull()]["end"].apply(lambda x: math.ceil(x))', "end rounded outward"),
 ("C01", "reset_index_drop", TP, "        df.reset_index(inplace=True)\n        df[\"index\"] = pd.to_numeric(df[\"index\"], downcast=\"integer\")\n\n        df, local_symbol_table = _compress_df(df, cfg)",
  "        df, local_symbol_table = _compress_df(df, cfg)\n        df.reset_index(drop=True, inplace=True)\n        df.reset_index(inplace=True)", "id = position after dropping rows, not position in the file"),
 ("C01", "shift_per_rank", TR, 'trace_df["ts"] = trace_df["ts"] - self.min_ts', 'trace_df["ts"] = trace_df["ts"] - trace_df["ts"].min()', "each rank shifted by its own minimum"),
 ("C01", "set_index_drop", TR, 'df = self.traces[rank].set_index("index", drop=False)', 'df = self.traces[rank].set_index("index")', "id column lost"),
 ("C01", "stream_fallback_zero", U, "        except ValueError:\n            return -1", "        except ValueError:\n            return 0", "non-numeric stream becomes device stream 0"),
 # ---- C02
 ("C02", "left_merge", TR, 'merged = on_cpu.merge(on_gpu, on="correlation", how="inner")', 'merged = on_cpu.merge(on_gpu, on="correlation", how="left")', "NaN links"),
 ("C02", "one_direction", TR, '    df.loc[merged["index_y"], "index_correlation"] = merged["index_x"].values\n', '', "links not mutual"),
 ("C02", "same_direction_twice", TR, 'df.loc[merged["index_y"], "index_correlation"] = merged["index_x"].values', 'df.loc[merged["index_y"], "index_correlation"] = merged["index_y"].values', "device event linked to itself"),
 ("C02", "label_aligned_rhs", TR, 'df.loc[merged["index_x"], "index_correlation"] = merged["index_y"].values', 'df.loc[merged["index_x"], "index_correlation"] = merged["index_y"]', "label-aligned right-hand side"),
 ("C02", "sentinel_init_minus1", TR, 'df["index_correlation"] = np.minimum(df["correlation"], 0)', 'df["index_correlation"] = -1', "events with an id but no partner get -1 instead of 0"),
 ("C02", "gpu_side_strict_corr", TF, 'return ((df["stream"] >= 0) & (df["correlation"] >= 0)) | df["name"].isin(', 'return ((df["stream"] >= 0) & (df["correlation"] > 0)) | df["name"].isin(', "correlation id 0 is a legal id"),
 ("C02", "pairs_ge0", TR, 'kernel_indices = df[df["stream"].gt(0) & df["index_correlation"].gt(0)]["index"]', 'kernel_indices = df[df["stream"].gt(0) & df["index_correlation"].ge(0)]["index"]', "sentinel 0 read as event id"),
 # ---- C03
 ("C03", "new_open_before_close", CS, "    if x[_I_KIND] == CLOSE_END and y[_I_KIND] == OPEN_END:  # x is closing, y is opening\n        return True", "    if x[_I_KIND] == CLOSE_END and y[_I_KIND] == OPEN_END:  # x is closing, y is opening\n        return False", "touching spans nest"),
 ("C03", "new_shorter_opens_first", CS, "            return x[_I_DUR] > y[_I_DUR]", "            return x[_I_DUR] < y[_I_DUR]", "inner span opened before outer"),
 ("C03", "old_same_start_idx", OS_, "result = -1 if x.idx < y.idx else 1 if x.idx > y.idx else 0", "result = 1 if x.idx < y.idx else -1 if x.idx > y.idx else 0", "identical spans nest in reverse file order"),
 ("C03", "old_diff_type", OS_, "result = 1 if x.type == EVENT_START else -1\n            elif", "result = -1 if x.type == EVENT_START else 1\n            elif", "opening before closing at equal time"),
 ("C03", "new_marker_swap", CS, '.replace({"ts": -1, "end": 1})\n            .sort_values("time")', '.replace({"ts": 1, "end": -1})\n            .sort_values("time")', "start/end markers swapped"),
 ("C03", "new_push_twice", CS, "                self._add_edge(parent_index, ev_idx)\n                stack.append(ev_idx)", "                self._add_edge(parent_index, ev_idx)\n                stack.append(ev_idx)\n                stack.append(ev_idx)", "double push"),
 ("C03", "old_parent_bottom", OS_, "parent_index = stack[-1].idx", "parent_index = stack[0].idx", "parent = outermost, not innermost"),
 # ---- C04
 ("C04", "idle_uses_raw_dur", BA, "kernel_run_time = merged_kernels.end.sum() - merged_kernels.ts.sum()", "kernel_run_time = kernels_df.dur.sum()", "overlapping kernels counted twice"),
 ("C04", "span_first_end", BA, 'kernel_time = merged_kernels.iloc[-1]["end"] - merged_kernels.iloc[0]["ts"]', 'kernel_time = merged_kernels.iloc[0]["end"] - merged_kernels.iloc[0]["ts"]', "span of the first group only"),
 ("C04", "noncompute_plus", BA, "non_compute_time = kernel_time - compute_time - idle_time", "non_compute_time = kernel_time - compute_time + idle_time", "parts do not sum"),
 ("C04", "compute_is_comm", BA, 'gpu_kernels["kernel_type"].eq(KernelType.COMPUTATION.name)\n                ].copy()\n            )\n            compute_time', 'gpu_kernels["kernel_type"].eq(KernelType.COMMUNICATION.name)\n                ].copy()\n            )\n            compute_time', "wrong kernel class"),
 ("C04", "device_gt0", BA, '            gpu_kernels = trace_df[trace_df["stream"].ne(-1)].copy()\n            idle_time, kernel_time', '            gpu_kernels = trace_df[trace_df["stream"].gt(0)].copy()\n            idle_time, kernel_time', "device activities on stream 0 ignored (C04 does not presuppose positive stream ids)"),
 ("C04", "merge_desc", U, 'kernel_df.sort_values(by="ts", inplace=True)', 'kernel_df.sort_values(by="ts", ascending=False, inplace=True)', "sweep order reversed"),
 ("C04", "merge_shift_back", U, 'kernel_df["end"].shift().cummax()', 'kernel_df["end"].shift(-1).cummax()', "compares with the next end"),
 ("C04", "pctg_scale", BA, 'result_df["idle_time_pctg"] = round(100 * result_df["idle_time"], 2)', 'result_df["idle_time_pctg"] = round(result_df["idle_time"], 2)', "not a percentage"),
 ("C04", "comm_regex", U, 'NCCL_KERNEL_RE = re.compile(r"^nccl.*Kernel")', 'NCCL_KERNEL_RE = re.compile(r"nccl.*Kernel$")', "different language"),
 ("C04", "chain_order", U, "    if is_comm_kernel(name):\n        return KernelType.COMMUNICATION.name\n    elif is_memory_kernel(name):\n        return KernelType.MEMORY.name", "    if is_memory_kernel(name):\n        return KernelType.MEMORY.name\n    elif is_comm_kernel(name):\n        return KernelType.COMMUNICATION.name", "priority of classes swapped"),
 # ---- C05
 ("C05", "bit_values_linear", BA, "value = 1 << idx", "value = idx + 1", "1,2,3 share bits"),
 ("C05", "running_ge0", BA, 'overlap_kernel_type_df["running"] > 0\n        ]', 'overlap_kernel_type_df["running"] >= 0\n        ]', "idle gaps labelled"),
 ("C05", "next_time_back", BA, 'overlap_kernel_type_df["next_time"] = overlap_kernel_type_df["time"].shift(-1)', 'overlap_kernel_type_df["next_time"] = overlap_kernel_type_df["time"].shift(1)', "previous segment"),
 ("C05", "bit_test_eq", BA, "if u_running & v_t:", "if u_running == v_t:", "overlap states unlabelled"),
 ("C05", "cut_gt", BA, "~keep_idx & (gpu_kernel_time.index >= num_kernels)", "~keep_idx & (gpu_kernel_time.index > num_kernels)", "num_kernels + 1 named rows"),
 ("C05", "sort_asc", BA, 'by=["sum"], ascending=False, ignore_index=True', 'by=["sum"], ascending=True, ignore_index=True', "smallest kernels kept"),
 ("C05", "types_no_comm", BA, "            KernelType.COMPUTATION.name,\n            KernelType.COMMUNICATION.name,\n        ]", "            KernelType.COMPUTATION.name,\n            KernelType.MEMORY.name,\n        ]", "communication not analysed"),
 # ---- C06
 ("C06", "shift_next", BA, 'gpu_kernels_s["prev_end_ts"] = gpu_kernels_s.end_ts.shift(1)', 'gpu_kernels_s["prev_end_ts"] = gpu_kernels_s.end_ts.shift(-1)', "next kernel's end"),
 ("C06", "host_wait_ge", BA, 'is_host_wait = gpu_kernels_s["ts_runtime"] > gpu_kernels_s["prev_end_ts"]', 'is_host_wait = gpu_kernels_s["ts_runtime"] >= gpu_kernels_s["prev_end_ts"]', "boundary reclassified"),
 ("C06", "kernel_wait_le", BA, 'gpu_kernels_s["idle_interval"] < consecutive_kernel_delay', 'gpu_kernels_s["idle_interval"] <= consecutive_kernel_delay', "threshold boundary"),
 ("C06", "swap_categories", BA, 'gpu_kernels_s.loc[is_host_wait, "idle_category"] = IdleTimeType.HOST_WAIT.value', 'gpu_kernels_s.loc[is_host_wait, "idle_category"] = IdleTimeType.KERNEL_WAIT.value', "wrong class"),
 ("C06", "inner_join", BA, 'trace_df[["ts", "index"]], on="index_correlation", rsuffix="_runtime"\n        )', 'trace_df[["ts", "index"]], on="index_correlation", rsuffix="_runtime", how="inner"\n        )', "kernels without launch dropped"),
 ("C06", "join_key_index", BA, 'trace_df[["ts", "index"]], on="index_correlation", rsuffix="_runtime"', 'trace_df[["ts", "index"]], on="index", rsuffix="_runtime"', "own ts used as launch ts"),
 ("C06", "facade_arg_order", TA, "                consecutive_kernel_delay,\n                rank,\n                streams,", "                rank,\n                consecutive_kernel_delay,\n                streams,", "threshold and rank swapped"),
 ("C06", "mean_not_sum", BA, "result = pd.DataFrame(gpu_kernels_groupby.idle_interval.sum())", "result = pd.DataFrame(gpu_kernels_groupby.idle_interval.mean())", "mean gap"),
 # ---- C07
 ("C07", "overlap_state", CA, 'overlap = status_df[status_df["running"].eq(3)]', 'overlap = status_df[status_df["running"].eq(2)]', "computation only"),
 ("C07", "markers_equal_sign", CA, '{"ts": 2, "end": -2}', '{"ts": 2, "end": 2}', "running sum never returns"),
 ("C07", "no_reset_index", CA, '                .sort_values(by="time")\n                .reset_index(drop=True)\n            )\n            status_df["running"]', '                .sort_values(by="time")\n            )\n            status_df["running"]', "index-aligned shift uses stale labels"),
 ("C07", "denominator_comp", CA, '                comm_kernels["end"] - comm_kernels["ts"]\n            ).sum()', '                comp_kernels["end"] - comp_kernels["ts"]\n            ).sum()', "ratio over computation time"),
 ("C07", "shift_plus", CA, "status_df.shift(-1).dropna()", "status_df.shift(1).dropna()", "previous segment"),
 ("C07", "pctg", CA, 'round(\n            100 * result_df["comp_comm_overlap_ratio"], 2\n        )', 'round(\n            result_df["comp_comm_overlap_ratio"], 2\n        )', "ratio not percentage"),
 # ---- C08
 ("C08", "sync_weighted", CP, "type in [CPEdgeType.DEPENDENCY, CPEdgeType.SYNC_DEPENDENCY]", "type in [CPEdgeType.DEPENDENCY]", "sync edges get a (possibly negative) time weight"),
 ("C08", "weight_reversed", CP, "else (dest.ts - src.ts)", "else (src.ts - dest.ts)", "negative weights"),
 ("C08", "end_node_ts", CP, 'ops_df_end["end"] = ops_df_end["ts"] + ops_df_end["dur"]', 'ops_df_end["end"] = ops_df_end["ts"]', "end node at start time"),
 ("C08", "flags_swapped", CP, '        ops_df_start["is_start"] = True', '        ops_df_start["is_start"] = False', "start rows flagged as end"),
 ("C08", "launch_delay_from_end", CP, "runtime_start, _ = self.get_nodes_for_event(runtime_index)", "_, runtime_start = self.get_nodes_for_event(runtime_index)", "launch delay from the launch call's end"),
 ("C08", "kk_from_start", CP, "            last_node[stream] = end_node\n", "            last_node[stream] = start_node\n", "kernel-kernel edge from previous kernel's start"),
 ("C08", "validation_skipped", CP, "        if not self._validate_graph():\n            raise ValueError(\n                \"Graph is not valid, see prints above for help on debugging\"\n            )\n", "        self._validate_graph()\n", "invalid graph analysed"),
 # ---- C09
 ("C09", "weight_key", CP, 'self.critical_path_nodes = nx.dag_longest_path(self, weight="weight")', 'self.critical_path_nodes = nx.dag_longest_path(self, weight="duration")', "maximises edge count"),
 ("C09", "events_skip_first", CP, "self.node_list[nid].ev_idx for nid in self.critical_path_nodes\n", "self.node_list[nid].ev_idx for nid in self.critical_path_nodes[1:]\n", "first event missing"),
 ("C09", "u_not_advanced", CP, "                self.critical_path_edges_set.add(e)\n                u = v", "                self.critical_path_edges_set.add(e)", "edges from the first node only"),
 ("C09", "stored_weight_key", CP, "self.add_edge(edge.begin, edge.end, weight=edge.weight, object=edge)", "self.add_edge(edge.begin, edge.end, w=edge.weight, object=edge)", "weights not under 'weight'"),
 # ---- C10
 ("C10", "case_ee_src", CP, "            ev_idx = dest.ev_idx  # Case 3", "            ev_idx = src.ev_idx  # Case 3", "unwinding edge attributed to the child"),
 ("C10", "kk_to_dest", CP, "            # arbitrary but assigning the delay to previous kernel\n            ev_idx = src.ev_idx", "            # arbitrary but assigning the delay to previous kernel\n            ev_idx = dest.ev_idx", "gap attributed to the following kernel"),
 ("C10", "bound_by_literal", CP, 'if row["type"] == "critical_path_kernel_kernel_delay":', 'if row["type"] == "critical_path_kernel_delay":', "misspelt enum value"),
 ("C10", "inner_merge", CP, '            right_on="index",\n            how="left",\n        )\n\n        # Add column to classify boundedness', '            right_on="index",\n            how="inner",\n        )\n\n        # Add column to classify boundedness', "unattributed edges dropped"),
 ("C10", "duration_zero_filter", CP, "make_edge_record(e) for e in self.critical_path_edges_set\n", "make_edge_record(e) for e in self.critical_path_edges_set if e.weight > 0\n", "zero-weight critical edges have no row"),
 # ---- C11
 ("C11", "id_after_append", ST, "                idx = len(self.sym_table)\n                self.sym_table.append(s)", "                self.sym_table.append(s)\n                idx = len(self.sym_table)", "ids off by one"),
 ("C11", "no_guard", ST, "            if s not in self.sym_index:\n                idx = len(self.sym_table)\n                self.sym_table.append(s)\n                self.sym_index[s] = idx", "            idx = len(self.sym_table)\n            self.sym_table.append(s)\n            self.sym_index[s] = idx", "repeated symbol renumbered"),
 ("C11", "clone_shares", ST, "tst.sym_index = symbol_table.sym_index.copy()", "tst.sym_index = symbol_table.sym_index", "clone aliases the source index"),
 ("C11", "wrong_local_table", TR, "            local_table = local_symbol_tables[rank].get_sym_table()", "            local_table = local_symbol_tables[ranks[0]].get_sym_table()", "first rank's table decodes every rank"),
 ("C11", "external_mutation", BA, "        sym_table = t.symbol_table.get_sym_table()\n\n        def idle_time_per_rank", "        sym_table = t.symbol_table.get_sym_table()\n        sym_table.sort()\n\n        def idle_time_per_rank", "table reordered through an alias"),
 # ---- C12
 ("C12", "closed_right", TR, "if step[0] <= ts < step[0] + step[1]:", "if step[0] <= ts <= step[0] + step[1]:", "event at the next step's start assigned to the previous step"),
 ("C12", "wrong_field", TR, "                iter = step[3]", "                iter = step[2]", "name id instead of step number"),
 ("C12", "trim_le", TR, 'else cpu_kernels[cpu_kernels["ts"] < last_profiler_start]', 'else cpu_kernels[cpu_kernels["ts"] <= last_profiler_start]', "first event of the last step kept"),
 ("C12", "trim_left_join", TR, 'cpu_kernels["correlation"], on="correlation", how="inner"', 'cpu_kernels["correlation"], on="correlation", how="left"', "all activities kept"),
 ("C12", "guard_two", TR, "        elif len(profiler_steps) == 1:", "        elif len(profiler_steps) <= 2:", "two steps not trimmed"),
 # ---- C13
 ("C13", "depth_no_increment", CS, "                node.depth = parent_depth + 1", "                node.depth = parent_depth", "depth off by one"),
 ("C13", "height_min", CS, "                        h = h_c if h_c > h else h", "                        h = h_c if h_c < h else h", "shortest child"),
 ("C13", "gpu_height_one", CS, "                if node.device == DeviceType.GPU:\n                    node.height = 0", "                if node.device == DeviceType.GPU:\n                    node.height = 1", "device height"),
 ("C13", "end_min", CS, "                end = max(end, c_info.last_end)", "                end = min(end, c_info.last_end)", "earliest end"),
 ("C13", "default_first_start", CG, '            df.loc[indices_no_kernel_child, "first_kernel_start"] = -1', '            df.loc[indices_no_kernel_child, "first_kernel_start"] = 0', "default"),
 ("C13", "link_reversed", CS, "self._add_edge(cpu_index, gpu_index, DeviceType.GPU)", "self._add_edge(gpu_index, cpu_index, DeviceType.GPU)", "launch child of kernel"),
 ("C13", "containment_start_only", CS, '                & self.full_df["ts"].ge(ts)\n                & self.full_df["end"].le(end)', '                & self.full_df["ts"].ge(ts)', "operators ending after the annotation attached"),
 # ---- C14
 ("C14", "launch_minus", TC, '        runtime_calls["queue"] = 1', '        runtime_calls["queue"] = -1', "sign"),
 ("C14", "no_semi_join", TC, '        gpu_kernels_filt = gpu_kernels[\n            gpu_kernels["correlation"].isin(runtime_calls["correlation"])\n        ]', "        gpu_kernels_filt = gpu_kernels", "unlaunched activities decrement"),
 ("C14", "cumsum_global", TC, '        for stream, stream_df in merged_df.groupby("stream"):', '        for stream, stream_df in merged_df.groupby("pid"):', "per device not per stream"),
 ("C14", "bw_end_positive", TC, "membw_time_series_b.memory_bw_gbps = -membw_time_series_b.memory_bw_gbps", "membw_time_series_b.memory_bw_gbps = membw_time_series_b.memory_bw_gbps", "never decreases"),
 ("C14", "unshift_minus", TR, 'events_df["ts"] = events_df["ts"] + self.min_ts', 'events_df["ts"] = events_df["ts"] - self.min_ts', "shifted twice"),
 ("C14", "linked_ge0", ST, "(name == {rocmMemcpyWithStream_id})) and (index_correlation > 0)", "(name == {rocmMemcpyWithStream_id})) and (index_correlation >= 0)", "unlinked launches counted"),
 # ---- C15
 ("C15", "delay_sign", CK, 'joined_df["ts_y"] - joined_df["ts_x"] - joined_df["dur_x"]', 'joined_df["ts_x"] - joined_df["ts_y"] - joined_df["dur_x"]', "negative delays clipped to 0"),
 ("C15", "no_clip", CK, '            joined_df["launch_delay"] = joined_df["launch_delay"].clip(lower=0)\n', '', "negative delay"),
 ("C15", "swap_durations", CK, 'columns={"dur_x": "cpu_duration", "dur_y": "gpu_duration"}', 'columns={"dur_y": "cpu_duration", "dur_x": "gpu_duration"}', "durations swapped"),
 ("C15", "memory_always", CK, "            if include_memory_events:\n                memory_event_correlation_series", "            if True:\n                memory_event_correlation_series", "memory launches always included"),
 ("C15", "cpu_side_ne", CK, '            cpu_kernels = trace_df[trace_df["stream"].eq(-1)].copy()', '            cpu_kernels = trace_df[trace_df["stream"].ne(-1)].copy()', "device rows on the host side"),
 # ---- C16
 ("C16", "max_depth", CK, 'min_depth = candidate_nodes["depth"].min()', 'min_depth = candidate_nodes["depth"].max()', "deepest instances"),
 ("C16", "gt_min_len", CK, '& candidate_nodes["num_kernels"].ge(min_pattern_len)', '& candidate_nodes["num_kernels"].gt(min_pattern_len)', "exactly min_pattern_len dropped"),
 ("C16", "with_ancestors", CK, "stack = cg.get_stack_of_node(index, skip_ancestors=True)", "stack = cg.get_stack_of_node(index, skip_ancestors=False)", "ancestors in the stack"),
 ("C16", "sort_dur", CK, '                .copy()\n                .sort_values("ts")\n            )\n            pattern', '                .copy()\n                .sort_values("dur")\n            )\n            pattern', "not start order"),
 ("C16", "durations_swapped", CK, "            pattern_durations[pattern][0] += kernel_dur_sum\n            pattern_durations[pattern][1] += dur", "            pattern_durations[pattern][0] += dur\n            pattern_durations[pattern][1] += kernel_dur_sum", "CPU/GPU swapped"),
 ("C16", "guard_visited_node", CS, "if not include_cuda_kernel and self.nodes[idx].device != DeviceType.CPU:", "if not include_cuda_kernel and self.nodes[_idx].device != DeviceType.CPU:", "device descendants pruned: every pattern empty"),
 # ---- C17
 ("C17", "diff_reversed", TD, 'comp[f"{test_label}_counts"] - comp[f"{control_label}_counts"]', 'comp[f"{control_label}_counts"] - comp[f"{test_label}_counts"]', "control - test"),
 ("C17", "inner_join", TD, '            join="outer",', '            join="inner",', "added/deleted names dropped"),
 ("C17", "cpu_filter_ne", TD, '            df = df_iter[df_iter["stream"].eq(-1)]', '            df = df_iter[df_iter["stream"].ne(-1)]', "CPU filter selects device"),
 ("C17", "test_uses_control_rank", TD, "test_trace.extract_ops(test_rank, test_iteration, device_type)", "test_trace.extract_ops(control_rank, test_iteration, device_type)", "wrong rank"),
 ("C17", "increased_no_control", TD, '            "increased": df.loc[\n                df[col_control].gt(0) & df[col_diff].gt(0)\n            ]', '            "increased": df.loc[\n                df[col_diff].gt(0)\n            ]', "added names also increased"),
 ("C17", "mean_not_sum", TD, '            .aggregate(["count", "sum"])', '            .aggregate(["count", "mean"])', "mean duration"),
 # ---- C18
 ("C18", "time_start_only", TF, 'df["ts"].ge(self.time_start) & (df["ts"] + df["dur"]).le(self.time_end)', 'df["ts"].ge(self.time_start) & df["ts"].le(self.time_end)', "events ending after the range"),
 ("C18", "contains", TF, "return df.loc[df[name_column].str.match(self.name_pattern)]", "return df.loc[df[name_column].str.contains(self.name_pattern)]", "substring match"),
 ("C18", "inplace_sort", TF, '        if "rank" not in df.columns:\n            logger.warning("DataFrame does not contain a \'rank\' column.")\n            return df\n', '        if "rank" not in df.columns:\n            logger.warning("DataFrame does not contain a \'rank\' column.")\n            return df\n        df.sort_values("rank", inplace=True)\n', "input mutated"),
 ("C18", "reset_index", TF, 'return df.loc[df["iteration"].isin(self.iterations)]', 'return df.loc[df["iteration"].isin(self.iterations)].reset_index(drop=True)', "ids changed"),
 ("C18", "cpu_fallback", TF, 'return df.loc[df["stream"] == -1]', 'return df.loc[df["stream"] <= 0]', "fallback predicate"),
 ("C18", "composite_no_symtab", TF, "            df = f(df, symbol_table)", "            df = f(df)", "symbol table not passed"),
 # ---- C19
 ("C19", "restore_missing", CP, "    restored_instance.edge_to_event_map = pickled_obj.edge_to_event_map\n", "", "attribution lost"),
 ("C19", "restore_crossed", CP, "restored_instance.event_to_end_node_map = pickled_obj.event_to_end_node_map", "restored_instance.event_to_end_node_map = pickled_obj.event_to_start_node_map", "maps crossed"),
 ("C19", "index_label", CP, 'self.trace_df.to_csv(trace_csv_path, index=True, index_label="_index_")', 'self.trace_df.to_csv(trace_csv_path, index=True, index_label="index")', "label mismatch"),
 ("C19", "zip_missing", CP, "            zipf.write(data_pkl_path)\n", "", "data pickle not archived"),
 ("C19", "save_wrong_attr", CP, "critical_path_nodes=self.critical_path_nodes,", "critical_path_nodes=list(self.critical_path_events_set),", "events saved as nodes"),
 # ---- C20
 ("C20", "marker_offset", CP, "for ev_idx, event in enumerate(raw_events):", "for ev_idx, event in enumerate(raw_events, 1):", "neighbours marked"),
 ("C20", "del_args", TA, '            raw_trace_content["traceEvents"].extend(ev_list)', '            raw_trace_content["traceEvents"] = raw_trace_content["traceEvents"][1:] + ev_list', "first source event dropped"),
 ("C20", "flow_same_node", CP, "flow_events.append(get_flow_event(v, end_ev, e, flow_id, is_start=False))", "flow_events.append(get_flow_event(u, start_ev, e, flow_id, is_start=False))", "flow end at the start event"),
 ("C20", "flow_id_twice", CP, "            flow_events.append(get_flow_event(v, end_ev, e, flow_id, is_start=False))\n            flow_id += 1", "            flow_id += 1\n            flow_events.append(get_flow_event(v, end_ev, e, flow_id, is_start=False))\n            flow_id += 1", "pair with different ids"),
 ("C20", "write_trace_always_gz", FI, '    if file_path.endswith(".gz"):\n        json_str = json.dumps(trace_data)', '    if True:\n        json_str = json.dumps(trace_data)', "always gzip"),
 ("C20", "compact_separators", FI, "fp.write(json.dumps(trace_data, indent=2))", 'fp.write(json.dumps(trace_data, separators=(",", ":")))', "rank not found again"),
 ("C20", "rank_key", FI, 'trace_data["distributedInfo"]["rank"] = rank', 'trace_data["distributedInfo"]["rank_id"] = rank', "wrong key"),
]


# edits that are equivalent under the properties' input assumptions: every check must stay SILENT on them
EQUIV = [
 ("C10", "stream_sign", CP, '    if row["stream"] < 0:\n        return "cpu_bound"', '    if row["stream"] <= 0:\n        return "cpu_bound"', "device stream ids are positive: stream 0 never occurs"),
 ("C12", "host_mask_le", TR, 'df.loc[df["stream"].lt(0), "iteration"]', 'df.loc[df["stream"].le(0), "iteration"]', "device stream ids are positive"),
 ("C17", "added_ge", TD, '"added": df.loc[df[col_control].eq(0) & df[col_test].gt(0)].index.tolist(),', '"added": df.loc[df[col_control].eq(0) & df[col_test].ge(0)].index.tolist(),', "a name absent from both traces has no row"),
 ("C04", "merge_ge", U, 'kernel_df["ts"] > kernel_df["end"].shift().cummax()', 'kernel_df["ts"] >= kernel_df["end"].shift().cummax()', "touching intervals: same measure whether merged or not"),
 ("C04", "merge_first_ts", U, '.agg({"ts": "min", "end": "max"})', '.agg({"ts": "first", "end": "max"})', "rows are ts-sorted: first == min"),
 ("C14", "stable_single_key", TC, '.sort_values(by=["ts", "queue"], ascending=[True, False], kind="stable")', '.sort_values(by="ts", kind="stable")', "stable sort over the launches-first concat keeps launches before activities"),
 ("C09", "default_weight_key", CP, 'self.critical_path_nodes = nx.dag_longest_path(self, weight="weight")', 'self.critical_path_nodes = nx.dag_longest_path(self)', "networkx' default weight key is 'weight'"),
 ("C03", "loop_truthiness", OS_, "                if len(stack) > 0:\n                    ev = stack.pop(-1)", "                if stack:\n                    ev = stack.pop(-1)", "same guard"),
 ("C18", "loc_vs_getitem", TF, 'return df.loc[df["rank"].isin(self.ranks)]', 'return df[df["rank"].isin(self.ranks)]', "same selection"),
 ("C02", "ne_minus1_operator", TR, 'df["correlation"].ne(-1), ["index", "correlation", "stream", "name"]', 'df["correlation"] != -1, ["index", "correlation", "stream", "name"]', "operator form"),
 ("C06", "sort_stable", BA, 'gpu_kernels[gpu_kernels.stream == stream].copy().sort_values(by="ts")', 'gpu_kernels[gpu_kernels.stream == stream].copy().sort_values(by="ts", kind="stable")', "sort kind is irrelevant for non-overlapping kernels"),
 ("C15", "clip_where", CK, 'joined_df["launch_delay"] = joined_df["launch_delay"].clip(lower=0)', 'joined_df["launch_delay"] = joined_df["launch_delay"].where(joined_df["launch_delay"] > 0, 0)', "same function"),
]


def main():
    eq_root = os.path.join(HERE, "sa", "selftest", "equivalent")
    for pid, name, rel, old, new, why in EQUIV:
        src = open(os.path.join(REPO, rel)).read()
        if src.count(old) != 1:
            print("equiv skipped", pid, name, src.count(old))
            continue
        mutated = src.replace(old, new)
        compile(mutated, rel, "exec")
        d = os.path.join(eq_root, pid)
        os.makedirs(d, exist_ok=True)
        open(os.path.join(d, name + ".diff"), "w").write("".join(difflib.unified_diff(src.splitlines(True), mutated.splitlines(True), "a/" + rel, "b/" + rel)))
    out_root = os.path.join(HERE, "sa", "selftest", "mutants")
    made, skipped = 0, []
    index = []
    for pid, name, rel, old, new, why in M:
        src = open(os.path.join(REPO, rel)).read()
        if src.count(old) != 1:
            skipped.append((pid, name, src.count(old)))
            continue
        mutated = src.replace(old, new)
        try:
            compile(mutated, rel, "exec")
        except SyntaxError as e:
            skipped.append((pid, name, f"syntax {e}"))
            continue
        diff = "".join(difflib.unified_diff(src.splitlines(True), mutated.splitlines(True), "a/" + rel, "b/" + rel))
        d = os.path.join(out_root, pid)
        os.makedirs(d, exist_ok=True)
        open(os.path.join(d, name + ".diff"), "w").write(diff)
        index.append({"property": pid, "name": name, "file": rel, "why": why})
        made += 1
    json.dump(index, open(os.path.join(out_root, "INDEX.json"), "w"), indent=1)
    print(f"made {made}; skipped {skipped}")


main()
