#!/venv/bin/python
"""Run the pinned baseline suite inside a checkout of HTA and report whether every
stable-pass test of /root/.vp/BASELINE.json still passes.
usage: run_baseline.py <checkout-dir>      exit 0 = all 87 stable tests pass"""
import json, os, subprocess, sys, tempfile, xml.etree.ElementTree as ET

def main():
    d = os.path.abspath(sys.argv[1])
    fd, junit = tempfile.mkstemp(suffix=".xml"); os.close(fd)
    subprocess.run(["/venv/bin/python", "-m", "pytest", "-q", "-p", "no:cacheprovider",
                    "--timeout=900", "--continue-on-collection-errors", "-x" if False else "-q",
                    "--junitxml=" + junit], cwd=d, stdout=subprocess.DEVNULL, stderr=subprocess.DEVNULL)
    ok = set()
    for tc in ET.parse(junit).iter("testcase"):
        if not any(c.tag in ("failure", "error", "skipped") for c in tc):
            ok.add(tc.get("classname") + "::" + tc.get("name"))
    os.unlink(junit)
    stable = json.load(open("/root/.vp/BASELINE.json"))["stable_pass"]
    miss = [t for t in stable if t not in ok]
    print(f"passed={len(ok)} stable={len(stable)} stable_missing={len(miss)}")
    for t in miss:
        print("  MISSING", t)
    sys.exit(1 if miss else 0)
main()
