#!/venv/bin/python
"""Run every seeded change against the check of its own property (and optionally all checks): prints the matrix.
usage: mutmatrix.py [--all]"""
import json, os, sys, concurrent.futures as cf
sys.path.insert(0, os.path.dirname(os.path.abspath(__file__)))
import mutcheck
HERE = os.path.dirname(os.path.dirname(os.path.abspath(__file__)))
ALL = [f"C{i:02d}" for i in range(1, 21)]

def one(d):
    pid = d.split("-")[0]
    pids = ALL if "--all" in sys.argv else [pid]
    res = mutcheck.run(os.path.join(HERE, "seeded", d, "patch.diff"), pids, quiet=True)
    return d, {p: (rc, [l.split("[")[0].split("violated ")[-1].strip() for l in lines if "violated" in l][:2]) for p, (rc, lines) in (res or {}).items()}

dirs = sorted(x for x in os.listdir(os.path.join(HERE, "seeded")) if os.path.isdir(os.path.join(HERE, "seeded", x)))
out = {}
with cf.ThreadPoolExecutor(8) as ex:
    for d, r in ex.map(one, dirs):
        out[d] = r
        own = r.get(d.split("-")[0], (None, []))
        others = [p for p, (rc, _) in r.items() if rc == 1 and p != d.split("-")[0]]
        print(f"{d}: own check rc={own[0]} {own[1][:1]}" + (f"  also caught by {others}" if others else ""), flush=True)
json.dump(out, open("/tmp/mutmatrix.json", "w"), indent=1)
