#!/venv/bin/python
"""Confirm seeded changes delivered by the independent sub-agents and file them under /verif/seeded.

For every /tmp/seeded_out/<ID>/<V>/ (patch.diff, demo.py, notes.txt):
  1. scratch copy of /repo (no .git) under a fresh temp dir
  2. demo.py on the unchanged copy must exit 0
  3. apply patch.diff; demo.py must exit 1
  4. the pinned baseline (87 stable tests) must still pass on the patched copy
  5. write /verif/seeded/<ID>-<V>/{patch.diff,demo.py,meta.json}; remove the scratch copy
usage: confirm_seeded.py [ID ...]   (default: all)   env JOBS=<n> parallel workers
"""
import concurrent.futures as cf
import json
import os
import shutil
import subprocess
import sys
import tempfile

OUT = os.environ.get("SEEDED_OUT", "/tmp/seeded_out")
RENAME = dict(x.split("=") for x in os.environ.get("SEEDED_RENAME", "A=A,B=B").split(","))
DST = "/verif/seeded"
PROPS = {json.loads(l)["id"]: json.loads(l) for l in open("/verif/properties.jsonl")}


def one(pid, v):
    src = os.path.join(OUT, pid, v)
    if not os.path.exists(os.path.join(src, "patch.diff")):
        return pid, v, "missing"
    tmp = tempfile.mkdtemp(prefix=f"confirm_{pid}{v}_")
    res = {"property": pid, "variant": v}
    try:
        subprocess.run(["rsync", "-a", "--exclude", ".git", "--exclude", "__pycache__", "/repo/", tmp + "/"], check=True)
        env = dict(os.environ, PYTHONDONTWRITEBYTECODE="1")
        d0 = subprocess.run(["/venv/bin/python", os.path.join(src, "demo.py"), tmp], capture_output=True, text=True, env=env, timeout=900)
        res["demo_clean_rc"] = d0.returncode
        p = subprocess.run(["patch", "-p1", "-s", "-d", tmp, "-i", os.path.join(src, "patch.diff")], capture_output=True, text=True)
        res["patch_applies"] = p.returncode == 0
        d1 = subprocess.run(["/venv/bin/python", os.path.join(src, "demo.py"), tmp], capture_output=True, text=True, env=env, timeout=900)
        res["demo_patched_rc"] = d1.returncode
        res["demo_patched_tail"] = (d1.stdout + d1.stderr).strip().splitlines()[-3:]
        b = subprocess.run(["/venv/bin/python", "/verif/tools/run_baseline.py", tmp], capture_output=True, text=True, timeout=1800)
        res["baseline"] = b.stdout.strip().splitlines()[:3]
        res["baseline_ok"] = b.returncode == 0
        ok = res["demo_clean_rc"] == 0 and res["patch_applies"] and res["demo_patched_rc"] == 1 and res["baseline_ok"]
        res["confirmed"] = ok
        if ok:
            d = os.path.join(DST, f"{pid}-{RENAME.get(v, v)}")
            os.makedirs(d, exist_ok=True)
            shutil.copy(os.path.join(src, "patch.diff"), d)
            shutil.copy(os.path.join(src, "demo.py"), d)
            notes = open(os.path.join(src, "notes.txt")).read() if os.path.exists(os.path.join(src, "notes.txt")) else ""
            meta = {
                "property": pid, "title": PROPS[pid]["title"], "variant": RENAME.get(v, v), "source": "independent sub-agent given only the property text (and, in rounds 2-3, one-line summaries of the earlier changes to avoid) and a scratch worktree",
                "what_it_needs_to_manifest": notes.strip(),
                "confirmed_by": "tools/confirm_seeded.py on a scratch copy of /repo (HEAD incl. the fix: commits)",
                "ran": {"demo_on_unchanged_copy_rc": res["demo_clean_rc"], "demo_on_patched_copy_rc": res["demo_patched_rc"],
                        "demo_patched_output_tail": res["demo_patched_tail"], "baseline_on_patched_copy": res["baseline"]},
            }
            json.dump(meta, open(os.path.join(d, "meta.json"), "w"), indent=1)
        return pid, v, res
    except Exception as e:  # noqa
        return pid, v, f"error {e}"
    finally:
        shutil.rmtree(tmp, ignore_errors=True)


def main():
    ids = sys.argv[1:] or sorted(os.listdir(OUT))
    jobs = [(p, v) for p in ids for v in ("A", "B") if os.path.isdir(os.path.join(OUT, p, v))]
    with cf.ThreadPoolExecutor(int(os.environ.get("JOBS", "4"))) as ex:
        for pid, v, res in ex.map(lambda a: one(*a), jobs):
            if isinstance(res, dict):
                print(pid, v, "CONFIRMED" if res["confirmed"] else "REJECTED", {k: res[k] for k in ("demo_clean_rc", "demo_patched_rc", "baseline_ok", "patch_applies")}, flush=True)
            else:
                print(pid, v, res, flush=True)


main()
