import sys, os, glob, concurrent.futures as cf
sys.path.insert(0,'/verif/tools'); import mutcheck
files=sorted(glob.glob('/verif/sa/selftest/mutants/C*/*.diff'))
def one(f):
    pid=f.split('/')[-2]
    r=mutcheck.run(f,[pid],quiet=True)
    return f, r[pid] if r else ('patch-failed',[])
with cf.ThreadPoolExecutor(12) as ex:
    for f,(rc,lines) in ex.map(one, files):
        if rc!=1: print('NOT-FIRED', '/'.join(f.split('/')[-2:]), rc, (lines[0][:160] if lines else ''))
print('total',len(files))
